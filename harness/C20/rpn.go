//go:build verif

package rpn

import (
	"github.com/openGemini/openGemini/lib/util/lifted/influx/influxql"
	"github.com/openGemini/openGemini/lib/verifrt"
)

// VerifC20LiteralFirst: a comparison written literal-first (`5 <= k`) is turned round into column-first
// form before the sparse-index key condition is built from it (ConvertToRPNExpr). For every comparison
// operator and all integer operands the rewritten comparison is true exactly when the written one is, and
// the RPN form lists column, literal, operator - otherwise a fragment holding a matching row is pruned.
func VerifC20LiteralFirst() {
	ops := []influxql.Token{influxql.LT, influxql.LTE, influxql.GT, influxql.GTE, influxql.EQ, influxql.NEQ}
	op := ops[verifrt.Choose("op", len(ops))]
	lit, x := verifrt.Int64("literal"), verifrt.Int64("column")
	literalFirst := verifrt.Bool("literalFirst")
	var e *influxql.BinaryExpr
	if literalFirst {
		e = &influxql.BinaryExpr{Op: op, LHS: &influxql.IntegerLiteral{Val: lit}, RHS: &influxql.VarRef{Val: "k", Type: influxql.Integer}}
	} else {
		e = &influxql.BinaryExpr{Op: op, LHS: &influxql.VarRef{Val: "k", Type: influxql.Integer}, RHS: &influxql.IntegerLiteral{Val: lit}}
	}
	env := map[string]interface{}{"k": x}
	want := influxql.Eval(e, env)
	r := ConvertToRPNExpr(e)
	_, colFirst := e.LHS.(*influxql.VarRef)
	verifrt.Assert(colFirst, "the comparison is not in column-first form after the conversion")
	verifrt.Assert(influxql.Eval(e, env) == want, "the comparison turned round for the index is not equivalent to the one that was written")
	verifrt.Assert(len(r.Val) == 3, "the RPN form of one comparison does not have three elements")
	if len(r.Val) == 3 {
		_, isCol := r.Val[0].(*influxql.VarRef)
		l, isLit := r.Val[1].(*influxql.IntegerLiteral)
		o, isOp := r.Val[2].(influxql.Token)
		verifrt.Assert(isCol && isLit && isOp && l.Val == lit && o == e.Op, "the RPN form does not list column, literal, operator")
	}
	if literalFirst {
		verifrt.Reach("turned-round")
	}
	verifrt.Reach("end")
}
