//go:build verif

package tokenizer

import (
	"github.com/openGemini/openGemini/lib/bloomfilter"
	"github.com/openGemini/openGemini/lib/verifrt"
)

// VerifC20BloomWriteRead: the block writer (ProcessTokenizerBatch, bit table of this package) and the
// block reader (OneHitBloomFilterV3.Hit, bit table of lib/bloomfilter) must agree: for every token hash,
// a block whose filter was built from a row containing the token is never reported as "cannot contain it".
// The hash is made arbitrary through an arbitrary tokenizer seed; it is restricted to filter word 0
// (hash>>46 == 0) so that the filter is 16 bytes instead of 256 KiB - the word index is used identically
// by both sides and plays no part in the bit selection.
func VerifC20BloomWriteRead() {
	seed := verifrt.Uint64("seed")
	input := []byte("a")
	probe := &SimpleTokenizer{splitTable: CONTENT_SPLIT_TABLE, seed: seed}
	probe.InitInput(input)
	verifrt.Assert(probe.Next(), "the tokenizer found no token")
	h := probe.CurrentHash()
	verifrt.Assume(h>>46 == 0)
	stale := verifrt.Uint64("stale") // bits already set in the filter word by earlier tokens
	out := make([]byte, 16)
	for i := 0; i < 8; i++ {
		out[i] = byte(stale >> (8 * i))
	}
	w := &SimpleTokenizer{splitTable: CONTENT_SPLIT_TABLE, seed: seed}
	w.ProcessTokenizerBatch(input, out, []int32{0}, []int32{1})
	r := bloomfilter.NewOneHitBloomFilter(out, 3)
	verifrt.Assert(r.Hit(h), "the skip index prunes a block that holds the token (writer and reader bit tables disagree)")
	verifrt.Reach("end")
}
