//go:build verif

package record

import (
	"github.com/openGemini/openGemini/lib/verifrt"
)

// VerifC20StringOffsets: the skip-index writers take the non-null values of a string column block from
// ColVal.GetOffsAndLens before tokenising them. For a block that starts at any bit of the null bitmap
// (blocks cut out of a larger column do not start on a byte boundary), any pattern of nulls and any value
// lengths, it returns exactly the non-null values' positions and lengths - a value that is skipped or
// glued to its neighbour never reaches the block's filter, and the block is pruned although it matches.
func VerifC20StringOffsets() {
	n := 1 + verifrt.Choose("rows", 3+verifrt.Tier())
	bmOff := verifrt.Choose("bitmapOffset", 8)
	cv := &ColVal{BitMapOffset: bmOff, Len: n, Bitmap: make([]byte, (bmOff+n+7)/8)}
	// bits before the block belong to other rows: arbitrary
	cv.Bitmap[0] = verifrt.Byte("foreignBits") & (byte(1)<<uint(bmOff) - 1)
	var wantOff, wantLen []int32
	for i := 0; i < n; i++ {
		cv.Offset = append(cv.Offset, uint32(len(cv.Val)))
		if verifrt.Bool("null") {
			cv.NilCount++
			continue
		}
		l := verifrt.Choose("len", 3)
		wantOff = append(wantOff, int32(len(cv.Val)))
		wantLen = append(wantLen, int32(l))
		cv.Val = append(cv.Val, []byte("xyz")[:l]...)
		bit := bmOff + i
		cv.Bitmap[bit>>3] |= BitMask[bit&7]
	}
	offs, lens := cv.GetOffsAndLens()
	verifrt.Assert(len(offs) == len(wantOff) && len(lens) == len(wantLen), "not one position per non-null value")
	for k := range wantOff {
		if k < len(offs) && k < len(lens) {
			verifrt.Assert(offs[k] == wantOff[k] && lens[k] == wantLen[k], "a value's position or length is wrong: values are skipped or glued together")
		}
	}
	if bmOff > 0 && cv.NilCount > 0 && cv.NilCount < n {
		verifrt.Reach("unaligned-with-nulls")
	}
	verifrt.Reach("end")
}
