//go:build verif

package sparseindex

import (
	"github.com/openGemini/openGemini/engine/immutable/colstore"
	"github.com/openGemini/openGemini/lib/record"
	"github.com/openGemini/openGemini/lib/util/lifted/influx/influxql"
	"github.com/openGemini/openGemini/lib/util/lifted/vm/protoparser/influx"
	"github.com/openGemini/openGemini/lib/verifrt"
)

// verifC20FixRows is immutable.GenFixRowsPerSegment (the writer's fragment boundaries); copied because
// engine/immutable imports this package.
func verifC20FixRows(rowNum, rowNumPerSegment int) []int {
	numFragment, remainFragment := rowNum/rowNumPerSegment, rowNum%rowNumPerSegment
	if remainFragment > 0 {
		numFragment++
	}
	res := make([]int, numFragment)
	for i := 0; i < numFragment-1; i++ {
		res[i] = rowNumPerSegment * (i + 1)
	}
	res[numFragment-1] = rowNum - 1
	return res
}

var verifC20Ops = []influxql.Token{influxql.EQ, influxql.NEQ, influxql.LT, influxql.LTE, influxql.GT, influxql.GTE}

func verifC20Cmp(op influxql.Token, v, lit int64) bool {
	switch op {
	case influxql.EQ:
		return v == lit
	case influxql.NEQ:
		return v != lit
	case influxql.LT:
		return v < lit
	case influxql.LTE:
		return v <= lit
	case influxql.GT:
		return v > lit
	default:
		return v >= lit
	}
}

type verifC20Atom struct {
	col int // 0 = a, 1 = b, 2 = non-key column c
	op  influxql.Token
	lit int64
}

func verifC20NewAtom(name string, ncols int) verifC20Atom {
	return verifC20Atom{col: verifrt.Choose(name+"Col", ncols), op: verifC20Ops[verifrt.Choose(name+"Op", 6)], lit: verifrt.Int64(name + "Lit")}
}

func (at verifC20Atom) expr() influxql.Expr {
	names := []string{"a", "b", "c"}
	return &influxql.BinaryExpr{Op: at.op, LHS: &influxql.VarRef{Val: names[at.col], Type: influxql.Integer}, RHS: &influxql.IntegerLiteral{Val: at.lit}}
}

func (at verifC20Atom) eval(a, b, c int64) bool {
	v := a
	if at.col == 1 {
		v = b
	} else if at.col == 2 {
		v = c
	}
	return verifC20Cmp(at.op, v, at.lit)
}

// verifC20PK: a fragment holding a row that satisfies the condition is inside a returned range.
// knownNE: exclude the listed finding (a != atom combined with an atom on another key column).
func verifC20PK(excludeKnown bool) {
	n := 3 // quick: 3 rows = one full and one short fragment
	if verifrt.Tier() > 0 {
		n = verifrt.Choose("n", 4) + 2 // thorough: 2..5 rows
	}
	as, bs, cs := make([]int64, n), make([]int64, n), make([]int64, n)
	for i := 0; i < n; i++ {
		as[i], bs[i], cs[i] = verifrt.Int64("a"), verifrt.Int64("b"), verifrt.Int64("c")
		if i > 0 { // sorted by (a, b): the order the column-store writer guarantees
			a0, a1, b0, b1 := as[i-1], as[i], bs[i-1], bs[i]
			verifrt.Assume(a0 < a1 || (a0 == a1 && b0 <= b1))
		}
	}
	pkSchema := record.Schemas{{Name: "a", Type: influx.Field_Type_Int}, {Name: "b", Type: influx.Field_Type_Int}}
	src := record.NewRecord(pkSchema, false)
	src.Column(0).AppendIntegers(as...)
	src.Column(1).AppendIntegers(bs...)
	const fragSize = 2
	w := NewPKIndexWriter()
	pkRec, pkMark, err := w.Build(src, pkSchema, verifC20FixRows(n, fragSize), colstore.DefaultTCLocation, fragSize)
	verifrt.Assert(err == nil, "index build failed")

	x := verifC20NewAtom("x", 2+verifrt.Tier()) // quick: first atom on a key column
	var cond influxql.Expr
	shape := verifrt.Choose("shape", 3)
	var y verifC20Atom
	if shape == 0 {
		cond = x.expr()
	} else {
		y = verifC20NewAtom("y", 2+verifrt.Tier())
		if excludeKnown {
			verifrt.Assume(!((x.op == influxql.NEQ && x.col < 2 && y.col < 2 && y.col != x.col) || (y.op == influxql.NEQ && y.col < 2 && x.col < 2 && y.col != x.col)))
		}
		if shape == 1 {
			cond = &influxql.BinaryExpr{Op: influxql.AND, LHS: x.expr(), RHS: y.expr()}
		} else {
			cond = &influxql.BinaryExpr{Op: influxql.OR, LHS: x.expr(), RHS: y.expr()}
		}
	}
	kc, err := NewKeyCondition(nil, cond, pkSchema)
	verifrt.Assert(err == nil, "key condition rejected")
	r := NewPKIndexReader(fragSize, 2, 0)
	ranges, err := r.Scan("f.idx", pkRec, pkMark, kc)
	verifrt.Assert(err == nil, "scan failed")
	if kc.CanDoBinarySearch() {
		verifrt.Reach("binary")
	} else {
		verifrt.Reach("exclusion")
	}
	for i := 0; i < n; i++ {
		sat := x.eval(as[i], bs[i], cs[i])
		if shape == 1 {
			sat = sat && y.eval(as[i], bs[i], cs[i])
		} else if shape == 2 {
			sat = sat || y.eval(as[i], bs[i], cs[i])
		}
		if !sat {
			continue
		}
		frag := uint32(i / fragSize)
		covered := false
		for _, fr := range ranges {
			if fr.Start <= frag && frag < fr.End {
				covered = true
			}
		}
		verifrt.Assert(covered, "primary-key scan pruned a fragment that holds a matching row")
	}
	verifrt.Reach("end")
}

func VerifC20PK() { verifC20PK(true) }

// VerifC20PKNotEqualFinding re-derives the listed finding: != on one key column combined with an atom on the other.
func VerifC20PKNotEqualFinding() { verifC20PK(false) }
