//go:build verif

package executor

import (
	"github.com/openGemini/openGemini/engine/hybridqp"
	"github.com/openGemini/openGemini/lib/util/lifted/influx/influxql"
	"github.com/openGemini/openGemini/lib/verifrt"
)

// verifC08NullChunk builds an input chunk of one integer column with nulls and the GROUP BY time()
// window starts of its rows.
func verifC08NullChunk(times, values []int64, nulls []bool, buckets []int) Chunk {
	rt := hybridqp.NewRowDataTypeImpl(influxql.VarRef{Val: "v", Type: influxql.Integer})
	c := NewChunkBuilder(rt).NewChunk("m")
	c.AppendTimes(times)
	for i := range values {
		if nulls[i] {
			c.Column(0).AppendNil()
		} else {
			c.Column(0).AppendNotNil()
			c.Column(0).AppendIntegerValue(values[i])
		}
		if i == 0 || buckets[i] != buckets[i-1] {
			c.AppendIntervalIndex(i)
		}
	}
	return c
}

// VerifC08IteratorChunking: the aggregate operator's per-column iterator (IntegerIterator.Next, which
// carries the partial result of a window that continues into the next chunk) produces, for a group of
// rows with nulls spread over GROUP BY time() windows, one output slot per window holding the aggregate
// of the window's non-null values (null if there are none) - however the rows are cut into one, two or
// three chunks.
func VerifC08IteratorChunking() {
	n := 2 + verifrt.Choose("n", 3+verifrt.Tier())
	times, values, nulls, buckets := make([]int64, n), make([]int64, n), make([]bool, n), make([]int, n)
	for i := 0; i < n; i++ {
		if i > 0 {
			buckets[i] = buckets[i-1] + verifrt.Choose("newWindow", 2)
		}
		times[i] = int64(buckets[i]*100 + i)
		values[i] = verifrt.Int64("v")
		nulls[i] = verifrt.Choose("null", 2) == 1
	}
	ai := verifrt.Choose("agg", len(verifC08Aggs))
	a := &verifC08Aggs[ai]
	c1 := verifrt.Choose("cut1", n+1)
	c2 := c1 + verifrt.Choose("cut2", n+1-c1)
	bounds := []int{0, c1, c2, n}

	rt := hybridqp.NewRowDataTypeImpl(influxql.VarRef{Val: "v", Type: influxql.Integer})
	out := NewChunkBuilder(rt).NewChunk("m")
	it := NewIntegerIterator(a.reduce, a.merge, false, 0, 0, nil, nil)
	chunks := 0
	for k := 0; k < 3; k++ {
		lo, hi := bounds[k], bounds[k+1]
		if lo == hi {
			continue
		}
		chunks++
		// the next non-empty chunk, if any, continues the last window of this one iff its first row is in the same window
		next := hi
		same := next < n && buckets[next] == buckets[hi-1]
		in := verifC08NullChunk(times[lo:hi], values[lo:hi], nulls[lo:hi], buckets[lo:hi])
		it.Next(&IteratorEndpoint{InputPoint: EndPointPair{Chunk: in, Ordinal: 0}, OutputPoint: EndPointPair{Chunk: out, Ordinal: 0}}, &IteratorParams{sameInterval: same, lastChunk: hi == n})
	}
	if chunks > 1 {
		verifrt.Reach("several-chunks")
	}
	col := out.Column(0)
	nwin := buckets[n-1] + 1
	verifrt.Assert(col.Length() == nwin, "the operator does not emit exactly one result slot per GROUP BY time() window")
	if col.Length() != nwin {
		return
	}
	for w := 0; w < nwin; w++ {
		have, want := false, int64(0)
		for i := 0; i < n; i++ {
			if buckets[i] != w || nulls[i] {
				continue
			}
			v := values[i]
			switch {
			case !have:
				want = v
			case a.name == "min" && v < want, a.name == "max" && v > want, a.name == "last":
				want = v
			case a.name == "sum":
				want += v
			}
			have = true
		}
		verifrt.Assert(col.IsNilV2(w) == !have, "a window's result is null although it has values, or the other way round - depending on the chunking")
		if have && !col.IsNilV2(w) {
			verifrt.Assert(col.IntegerValue(col.GetValueIndexV2(w)) == want, "a window's aggregate differs from the aggregate of its non-null values - depending on the chunking")
		}
		if !have {
			verifrt.Reach("empty-window")
		}
	}
	verifrt.Reach("end")
}
