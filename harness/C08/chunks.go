//go:build verif

package executor

import (
	"time"

	"github.com/openGemini/openGemini/engine/hybridqp"
	"github.com/openGemini/openGemini/lib/util/lifted/influx/influxql"
	"github.com/openGemini/openGemini/lib/util/lifted/influx/query"
	"github.com/openGemini/openGemini/lib/verifrt"
)

func verifC08Chunk(times, values []int64) Chunk {
	rt := hybridqp.NewRowDataTypeImpl(influxql.VarRef{Val: "v", Type: influxql.Integer})
	c := NewChunkBuilder(rt).NewChunk("m")
	c.AppendTimes(times)
	c.Column(0).AppendIntegerValues(values)
	c.Column(0).AppendManyNotNil(len(values))
	return c
}

type verifC08Agg struct {
	name   string
	reduce func(c Chunk, values []int64, ordinal, start, end int) (int, int64, bool)
	merge  func(prev, curr *Point[int64])
	timed  bool // the answer carries the time of the selected row
}

var verifC08Aggs = []verifC08Agg{
	{"min", MinReduce[int64], MinMerge[int64], true},
	{"max", MaxReduce[int64], MaxMerge[int64], true},
	{"first", FirstReduce[int64], FirstMerge[int64], true},
	{"last", LastReduce[int64], LastMerge[int64], true},
	{"sum", SumReduce[int64], SumMerge[int64], false},
}

func verifC08Point(c Chunk, a *verifC08Agg, n int) *Point[int64] {
	p := newPoint[int64]()
	idx, v, isNil := a.reduce(c, c.Column(0).IntegerValues(), 0, 0, n)
	if !isNil {
		p.Set(idx, c.TimeByIndex(idx), v)
	}
	return p
}

// VerifC08AggChunking: for min, max, first, last and sum over int64, reducing a group that arrives in one
// chunk gives the same answer (value, and for the selectors the time of the selected row) as reducing the
// two chunks it may be cut into and merging the partial results - for every cut position, every value and
// every time pattern (ascending with equal timestamps allowed).
func VerifC08AggChunking() {
	n := 2 + verifrt.Choose("n", 3+verifrt.Tier())
	times, values := make([]int64, n), make([]int64, n)
	for i := 0; i < n; i++ {
		times[i], values[i] = verifrt.Int64("t"), verifrt.Int64("v")
		if i > 0 {
			verifrt.Assume(times[i] >= times[i-1])
		}
	}
	a := &verifC08Aggs[verifrt.Choose("agg", len(verifC08Aggs))]
	cut := 1 + verifrt.Choose("cut", n-1)
	whole := verifC08Point(verifC08Chunk(times, values), a, n)
	prev := verifC08Point(verifC08Chunk(times[:cut], values[:cut]), a, cut)
	curr := verifC08Point(verifC08Chunk(times[cut:], values[cut:]), a, n-cut)
	a.merge(prev, curr)
	verifrt.Assert(!whole.isNil && !prev.isNil, "aggregate of a non-empty group is nil")
	verifrt.Assert(prev.value == whole.value, "the aggregate value depends on where the input is cut into chunks")
	if a.timed {
		verifrt.Assert(prev.time == whole.time, "the time of the selected row depends on where the input is cut into chunks")
	}
	verifrt.Reach("end")
}

// VerifC08SameBucket: when a group continues across a chunk boundary, the aggregate operator treats the
// first row of the next chunk as belonging to the same GROUP BY time() bucket as the last row of the
// current chunk exactly when both fall into the same interval - for ascending and descending input alike.
func VerifC08SameBucket() {
	d := int64([]int64{1, 7, 10, 60}[verifrt.Choose("interval", 4)])
	t1, t2 := verifrt.Int64("t1"), verifrt.Int64("t2")
	verifrt.Assume(t1 >= 0 && t1 < 1<<20 && t2 >= 0 && t2 < 1<<20)
	cur := verifC08Chunk([]int64{t1}, []int64{1})
	next := verifC08Chunk([]int64{t2}, []int64{2})
	opt := &query.ProcessorOptions{}
	opt.Interval.Duration = time.Duration(d)
	trans := &StreamAggregateTransform{nextChunk: next, opt: opt}
	got := trans.isSameGroup(cur)
	want := t1/d == t2/d
	verifrt.Assert(got == want, "the bucket test at a chunk boundary differs from 'both times fall into the same interval'")
	if t2 < t1 {
		verifrt.Reach("descending")
	}
	verifrt.Reach("end")
}
