//go:build verif

package engine

import (
	"bufio"
	"bytes"
	"encoding/binary"
	"errors"
	"io"
	"io/fs"
	"os"
	"path/filepath"
	"time"

	"github.com/golang/snappy"
	"github.com/openGemini/openGemini/lib/errno"
	"github.com/openGemini/openGemini/lib/logger"
	"github.com/openGemini/openGemini/lib/verifrt"
)

// During symbolic execution snappy is an ideal compressor (one-byte ticket + table); natively the real one runs.
//verif:stub github.com/golang/snappy.Encode = verifC01SnappyEncode
//verif:stub github.com/golang/snappy.Decode = verifC01SnappyDecode
//verif:stub github.com/openGemini/openGemini/lib/fileops.ReadDir = verifC01ReadDir

var verifC01Blobs [][]byte
var errVerifC01 = errors.New("verif: corrupt")

func verifC01SnappyEncode(dst, src []byte) []byte {
	id := byte(1 + len(verifC01Blobs))
	verifC01Blobs = append(verifC01Blobs, append([]byte(nil), src...))
	out := append([]byte{0xC3, id}, make([]byte, len(src))...) // marker, ticket, padding up to the source length
	return out
}

func verifC01SnappyDecode(dst, src []byte) ([]byte, error) {
	if len(src) < 2 || src[0] != 0xC3 {
		return nil, errVerifC01
	}
	id := int(src[1])
	if id == 0 || id > len(verifC01Blobs) || len(src) != 2+len(verifC01Blobs[id-1]) {
		return nil, errVerifC01
	}
	return append(dst[:0], verifC01Blobs[id-1]...), nil
}

// VerifC01TornTail: a log file of up to 3 records cut at an arbitrary byte position is replayed as exactly
// its complete records, in order, with identical payloads; the torn tail produces no record. The reader
// buffer is the smallest bufio allows (16 bytes), so record headers and bodies straddle buffer refills.
func VerifC01TornTail() {
	nrec := 1 + verifrt.Choose("nrec", 3)
	var file []byte
	var payloads [][]byte
	var ends []int
	for i := 0; i < nrec; i++ {
		p := verifrt.Bytes("payload", verifrt.Choose("plen", 4))
		comp := snappy.Encode(nil, p)
		var hdr [WalRecordHeadSize]byte
		hdr[0] = byte(WriteWalArrowFlight)
		binary.BigEndian.PutUint32(hdr[1:], uint32(len(comp)))
		file = append(file, hdr[:]...)
		file = append(file, comp...)
		payloads = append(payloads, p)
		ends = append(ends, len(file))
	}
	// the cut: nowhere, or inside record cutRec - in its header (0..4 header bytes survive), exactly
	// behind its header, or inside its body (described relative to the record so that the same choice
	// means the same thing with the real compressor, whose output lengths differ from the model's)
	cut := len(file)
	cutRec := verifrt.Choose("cutRec", nrec+1)
	if cutRec < nrec {
		start := 0
		if cutRec > 0 {
			start = ends[cutRec-1]
		}
		body := ends[cutRec] - start - WalRecordHeadSize
		switch verifrt.Choose("cutKind", 3) {
		case 0:
			cut = start + verifrt.Choose("hdrKept", WalRecordHeadSize)
		case 1:
			cut = start + WalRecordHeadSize
			verifrt.Reach("cut-behind-header")
		default:
			keep := 1 + verifrt.Choose("bodyKept", 4)
			if keep >= body {
				keep = body - 1
			}
			if keep < 0 {
				keep = 0
			}
			cut = start + WalRecordHeadSize + keep
		}
	}
	l := &WAL{log: logger.NewLogger(errno.ModuleWal)}
	fr := bufio.NewReaderSize(bytes.NewReader(file[:cut]), 16)
	var got [][]byte
	var buf []byte
	for rounds := 0; rounds <= nrec+1; rounds++ {
		var err error
		buf, err = l.replayPhysicRecord(fr, "f.wal", buf, func(pc *walRecord) error {
			got = append(got, append([]byte(nil), pc.binary...))
			return nil
		})
		if err != nil {
			verifrt.Assert(err == io.EOF, "replay of a torn file returned an error other than end-of-log")
			break
		}
	}
	complete := 0
	for _, e := range ends {
		if e <= cut {
			complete++
		}
	}
	verifrt.Assert(len(got) == complete, "replay delivered a different number of records than the file holds completely")
	for i := 0; i < complete; i++ {
		verifrt.Assert(bytes.Equal(got[i], payloads[i]), "replayed record differs from the record written")
	}
	if cut < len(file) {
		verifrt.Reach("torn")
	}
	verifrt.Reach("end")
}

type verifC01Info struct{ name string }

func (i verifC01Info) Name() string       { return i.name }
func (i verifC01Info) Size() int64        { return 1 }
func (i verifC01Info) Mode() fs.FileMode  { return 0600 }
func (i verifC01Info) ModTime() time.Time { return time.Time{} }
func (i verifC01Info) IsDir() bool        { return false }
func (i verifC01Info) Sys() any           { return nil }

var verifC01Dir []fs.FileInfo

func verifC01ReadDir(dirname string) ([]fs.FileInfo, error) { return verifC01Dir, nil }

var verifC01Seqs = []int{1, 2, 8, 9, 10, 11, 99, 100, 101, 1000}

// VerifC01LogOrder: whatever log files of a partition are on disk (sequence numbers with different digit
// counts, listed in any order), recovery replays them from the oldest to the newest sequence number and
// the writer continues above the newest.
func VerifC01LogOrder() {
	n := 2 + verifrt.Choose("n", 2)
	var seqs []int
	verifC01Dir = nil
	for i := 0; i < n; i++ {
		s := verifC01Seqs[verifrt.Choose("seq", len(verifC01Seqs))]
		for _, o := range seqs {
			verifrt.Assume(o != s)
		}
		seqs = append(seqs, s)
		verifC01Dir = append(verifC01Dir, verifC01Info{name: itoa(s) + "." + WALFileSuffixes})
	}
	dir := "/p"
	if !verifrt.Symbolic() { // natively: real files in a temporary directory
		d, err := os.MkdirTemp("", "verif-c01-")
		verifrt.Assert(err == nil, "setup: temp dir")
		defer os.RemoveAll(d)
		dir = d
		for _, fi := range verifC01Dir {
			verifrt.Assert(os.WriteFile(filepath.Join(d, fi.Name()), []byte("x"), 0600) == nil, "setup: file")
		}
	}
	l := &WAL{log: logger.NewLogger(errno.ModuleWal)}
	w := &LogWriter{logPath: dir}
	r := &LogReplay{}
	l.restoreLog(w, r)
	max := 0
	for _, s := range seqs {
		if s > max {
			max = s
		}
	}
	verifrt.Assert(w.fileSeq == max, "writer does not continue above the newest log file")
	verifrt.Assert(len(r.fileNames) == n, "a log file is missing from the replay list")
	prev := 0
	for _, name := range r.fileNames {
		s := 0
		for _, c := range name[len(dir)+1 : len(name)-len(WALFileSuffixes)-1] {
			s = s*10 + int(c-'0')
		}
		verifrt.Assert(s > prev, "log files are not replayed from the oldest to the newest sequence number")
		prev = s
	}
	verifrt.Reach("end")
}

func itoa(v int) string {
	if v == 0 {
		return "0"
	}
	var b []byte
	for v > 0 {
		b = append([]byte{byte('0' + v%10)}, b...)
		v /= 10
	}
	return string(b)
}
