//go:build verif

package influx

import (
	"github.com/openGemini/openGemini/lib/verifrt"
)

// verifC06Digits builds a decimal spelling with symbolic digits and returns (text, value, overflow).
func verifC06Digits(maxLen int) (string, int64, bool) {
	neg := verifrt.Bool("neg")
	n := verifrt.Choose("len", maxLen) + 1
	buf := make([]byte, 0, 24)
	if neg {
		buf = append(buf, '-')
	}
	var acc uint64
	overflow := false
	for i := 0; i < n; i++ {
		d := verifrt.Byte("digit")
		verifrt.Assume(d >= '0' && d <= '9')
		if i == 0 && n > 1 {
			verifrt.Assume(d != '0') // canonical spelling: no leading zeros
		}
		buf = append(buf, d)
		if acc > (1<<63)/10 {
			overflow = true
		}
		acc = acc*10 + uint64(d-'0')
	}
	lim := uint64(1<<63 - 1)
	if neg {
		lim = 1 << 63
	}
	if acc > lim {
		overflow = true
	}
	v := int64(acc)
	if neg {
		v = -v
	}
	return string(buf), v, overflow
}

// verifC06IntField: an integer field written as <digits>i is stored with every digit.
func verifC06IntField(maxLen int, excludeKnown bool) {
	text, want, overflow := verifC06Digits(maxLen)
	verifrt.Assume(!overflow)
	if excludeKnown {
		// listed finding C06-int-above-2^53: the parser hands integers on as float64
		verifrt.Assume(want <= 1<<53 && want >= -(1<<53))
	}
	v, typ, err := parseFieldNumValue(text + "i")
	verifrt.Assert(err == nil, "valid integer field rejected")
	verifrt.Assert(typ == Field_Type_Int, "integer field not typed as integer")
	verifrt.Assert(int64(v) == want, "integer field value differs from its text")
	verifrt.Reach("end")
}

func VerifC06IntField() { verifC06IntField(16+3*verifrt.Tier(), true) }

// VerifC06IntAbove2p53Finding re-derives the listed finding.
func VerifC06IntAbove2p53Finding() { verifC06IntField(17, false) }

func verifC06EscTag(b []byte) []byte {
	out := make([]byte, 0, 2*len(b))
	for _, c := range b {
		if c == ',' || c == ' ' || c == '=' {
			out = append(out, '\\')
		}
		out = append(out, c)
	}
	return out
}

// verifC06TagBytes: bytes a client may put into a measurement, tag key or tag value (everything except
// line breaks and backslash, whose escaping the protocol leaves ambiguous).
func verifC06TagBytes(name string, n int) []byte {
	b := verifrt.Bytes(name, n)
	for _, c := range b {
		verifrt.Assume(c != '\n' && c != '\r' && c != '\\')
	}
	return b
}

// VerifC06TagEscape: measurement, tag key and tag value survive escaping -> parsing.
func VerifC06TagEscape() {
	m := verifC06TagBytes("m", verifrt.Choose("mlen", 2)+1)
	k := verifC06TagBytes("k", verifrt.Choose("klen", 2)+1)
	v := verifC06TagBytes("v", verifrt.Choose("vlen", 2)+1)
	verifrt.Assume(m[0] != '#')                           // a line starting with # is a comment
	verifrt.Assume(m[0] != ' ' && m[0] != '\t' && m[0] != 0) // leading blanks of a line are skipped
	line := append([]byte(nil), verifC06EscTag(m)...)
	line = append(line, ',')
	line = append(line, verifC06EscTag(k)...)
	line = append(line, '=')
	line = append(line, verifC06EscTag(v)...)
	line = append(line, " f=1i 7"...)
	rows, _, _, err := unmarshalRows(nil, string(line), nil, nil, false)
	verifrt.Assert(err == nil, "valid line rejected")
	verifrt.Assert(len(rows) == 1, "one line did not yield one row")
	r := &rows[0]
	verifrt.Assert(r.Name == string(m), "measurement differs from what was written")
	verifrt.Assert(len(r.Tags) == 1, "tag count differs")
	verifrt.Assert(r.Tags[0].Key == string(k), "tag key differs from what was written")
	verifrt.Assert(r.Tags[0].Value == string(v), "tag value differs from what was written")
	verifrt.Assert(len(r.Fields) == 1 && r.Fields[0].Key == "f" && r.Fields[0].NumValue == 1 && r.Fields[0].Type == Field_Type_Int, "field differs")
	verifrt.Assert(r.Timestamp == 7, "timestamp differs")
	verifrt.Reach("end")
}

// VerifC06StringField: a quoted string field value survives escaping -> parsing.
func VerifC06StringField() {
	n := verifrt.Choose("len", 3) + 1
	s := verifrt.Bytes("s", n)
	esc := make([]byte, 0, 2*n)
	for _, c := range s {
		verifrt.Assume(c != '\n')
		if c == '"' || c == '\\' {
			esc = append(esc, '\\')
		}
		esc = append(esc, c)
	}
	line := append([]byte("m f=\""), esc...)
	line = append(line, "\" 7"...)
	rows, _, _, err := unmarshalRows(nil, string(line), nil, nil, false)
	verifrt.Assert(err == nil, "valid line rejected")
	verifrt.Assert(len(rows) == 1 && len(rows[0].Fields) == 1, "one line did not yield one row with one field")
	f := &rows[0].Fields[0]
	verifrt.Assert(f.Type == Field_Type_String, "string field not typed as string")
	verifrt.Assert(f.StrValue == string(s), "string field value differs from what was written")
	verifrt.Assert(rows[0].Timestamp == 7, "timestamp differs")
	verifrt.Reach("end")
}

// VerifC06BoolAndReject: every accepted boolean spelling maps to its truth value; text that is neither a
// number, nor a boolean, nor a quoted string is rejected.
func VerifC06BoolAndReject() {
	n := verifrt.Choose("len", 3+verifrt.Tier()) + 1
	s := verifrt.String("s", n)
	for i := 0; i < n; i++ {
		verifrt.Assume(s[i] < 0x80) // ASCII text (the float parser folds case rune-wise)
	}
	v, typ, err := parseFieldNumValue(s)
	if err == nil && typ == Field_Type_Boolean {
		isTrue := s == "t" || s == "T" || s == "true" || s == "True" || s == "TRUE"
		isFalse := s == "f" || s == "F" || s == "false" || s == "False" || s == "FALSE"
		verifrt.Assert(isTrue || isFalse, "non-boolean text stored as boolean")
		verifrt.Assert((v == 1) == isTrue, "boolean stored with the wrong truth value")
		verifrt.Reach("bool")
	}
	if err == nil && typ == Field_Type_Float {
		for i := 0; i < n; i++ {
			c := s[i]
			ok := (c >= '0' && c <= '9') || c == '+' || c == '-' || c == '.' || c == 'e' || c == 'E' || (c == 'f' && i == n-1)
			verifrt.Assert(ok, "text with a non-numeric character stored as a float")
		}
		verifrt.Reach("float")
	}
	verifrt.Reach("end")
}
