//go:build verif

package coordinator

import (
	"math"
	"sort"

	"github.com/openGemini/openGemini/lib/util/lifted/vm/protoparser/influx"
	"github.com/openGemini/openGemini/lib/verifrt"
)

// VerifC06FixFields: the write path's clean-up of a point's field list (sort.Stable by key, then fixFields):
// a key written several times with one type is stored once, with the value written last; a key written
// with two different types rejects the point; a field called "time" is never stored; every other field
// is stored unchanged.
func VerifC06FixFields() {
	keys := []string{"a", "b", "time"}
	n := 1 + verifrt.Choose("n", 4+verifrt.Tier())
	in := make(influx.Fields, n)
	for i := range in {
		in[i].Key = keys[verifrt.Choose("key", len(keys))]
		in[i].Type = []int32{influx.Field_Type_Float, influx.Field_Type_Int}[verifrt.Choose("type", 2)]
		in[i].NumValue = verifrt.Float64("v")
	}
	orig := append(influx.Fields(nil), in...)
	sort.Stable(&in)
	out, err := fixFields(in)

	conflict := false
	for i := range orig {
		for j := range orig {
			if orig[i].Key != "time" && orig[i].Key == orig[j].Key && orig[i].Type != orig[j].Type {
				conflict = true
			}
		}
	}
	verifrt.Assert((err != nil) == conflict, "a point is rejected iff one of its field keys is written with two different types")
	if err != nil {
		verifrt.Reach("rejected")
		verifrt.Reach("end")
		return
	}
	for k := range out {
		verifrt.Assert(out[k].Key != "time", "a field called time is stored")
		if k > 0 {
			verifrt.Assert(out[k-1].Key < out[k].Key, "a field key is stored twice, or the stored fields are not sorted by key")
		}
	}
	for _, key := range keys[:2] {
		last := -1
		for i := range orig {
			if orig[i].Key == key {
				last = i
			}
		}
		found := -1
		for k := range out {
			if out[k].Key == key {
				found = k
			}
		}
		verifrt.Assert((last >= 0) == (found >= 0), "a written field is dropped, or a field nobody wrote is stored")
		if last >= 0 && found >= 0 {
			verifrt.Assert(out[found].Type == orig[last].Type && math.Float64bits(out[found].NumValue) == math.Float64bits(orig[last].NumValue), "a repeated field key does not keep the value written last")
			if last > 0 && orig[last-1].Key == key {
				verifrt.Reach("repeated-key")
			}
		}
	}
	verifrt.Reach("end")
}
