//go:build verif

package mutable

import (
	"math"

	"github.com/openGemini/openGemini/lib/config"
	"github.com/openGemini/openGemini/lib/record"
	"github.com/openGemini/openGemini/lib/util"
	"github.com/openGemini/openGemini/lib/util/lifted/vm/protoparser/influx"
	"github.com/openGemini/openGemini/lib/verifrt"
)

// VerifC06MemFields: points of one series that carry different subsets of the field names a..d are
// buffered by the in-memory table (CreateMsInfo / appendFields: the same-schema fast path or the
// by-name slow path, chosen by checkSchemaIsSame) and read back: every point has exactly the fields it
// was written with, each under its own name with its own value - a value never lands in the column of
// another field and no field is dropped.
func VerifC06MemFields() {
	names := []string{"a", "b", "c", "d"}
	n := 2 + verifrt.Choose("n", 1+verifrt.Tier())
	table := NewMemTable(config.TSSTORE)
	imp := table.MTable.(*tsMemTableImpl)
	const sid = 3
	masks := make([]int, n)
	vals := make([][4]float64, n)
	for i := 0; i < n; i++ {
		masks[i] = 1 + verifrt.Choose("fieldSet", 15)
		var fields []influx.Field
		for f := range names {
			if masks[i]&(1<<f) != 0 {
				vals[i][f] = verifrt.Float64("v")
				fields = append(fields, influx.Field{Key: names[f], NumValue: vals[i][f], Type: influx.Field_Type_Float})
			}
		}
		ts := int64(10 * (i + 1))
		row := influx.Row{Name: "m", Timestamp: ts, Fields: fields, PrimaryId: sid}
		msInfo := table.CreateMsInfo("m", &row, nil)
		chunk, _ := msInfo.CreateChunk(sid)
		_, err := imp.appendFields(msInfo, chunk, ts, fields)
		verifrt.Assert(err == nil, "a valid point was rejected by the in-memory table")
	}
	schema := record.Schemas{}
	for _, nm := range names {
		schema = append(schema, record.Field{Name: nm, Type: influx.Field_Type_Float})
	}
	schema = append(schema, record.Field{Name: record.TimeField, Type: influx.Field_Type_Int})
	rec := table.values("m", sid, util.TimeRange{Min: 0, Max: 1000}, schema, true)
	verifrt.Assert(rec != nil && rec.RowNums() == n, "not every buffered point is read back")
	if rec == nil || rec.RowNums() != n {
		return
	}
	for i := 0; i < n; i++ {
		verifrt.Assert(rec.Times()[i] == int64(10*(i+1)), "points come back with other timestamps")
		for f, nm := range names {
			ci := rec.Schema.FieldIndex(nm)
			verifrt.Assert(ci >= 0, "a requested field is missing from the result")
			has := masks[i]&(1<<f) != 0
			verifrt.Assert(rec.ColVals[ci].IsNil(i) == !has, "a point reads back with a field it was not written with, or without one it was written with")
			if has && !rec.ColVals[ci].IsNil(i) {
				got, _ := rec.ColVals[ci].FloatValue(i)
				verifrt.Assert(math.Float64bits(got) == math.Float64bits(vals[i][f]), "a field reads back with the value of another field or point")
			}
		}
		if i > 0 && masks[i] != masks[0] {
			verifrt.Reach("schema-differs")
		}
	}
	verifrt.Reach("end")
}
