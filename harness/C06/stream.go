//go:build verif

package influx

import (
	"bytes"
	"io"

	"github.com/openGemini/openGemini/lib/verifrt"
)

// verifC06Lines: the non-empty lines of a block (copied), which is what the row parser consumes.
func verifC06Lines(b []byte) [][]byte {
	var out [][]byte
	start := 0
	for i := 0; i <= len(b); i++ {
		if i == len(b) || b[i] == '\n' {
			if i > start {
				out = append(out, append([]byte(nil), b[start:i]...))
			}
			start = i + 1
		}
	}
	return out
}

// VerifC06StreamBlocks: the request body is cut into blocks of whole lines by ReadLinesBlockExt (block size 8
// here instead of 64 KiB, so that every alignment of line ends and block ends occurs within a few bytes).
// Whatever the body - newlines anywhere, last line with or without a newline, length a multiple of the
// block size or not - the non-empty lines of the blocks delivered are exactly the non-empty lines of the body, in order: no line is lost, split or
// delivered twice, and the stream ends with io.EOF.
func VerifC06StreamBlocks() {
	n := verifrt.Choose("len", 18)
	body := make([]byte, n)
	for i := range body {
		body[i] = byte('a' + i)
		// newlines may stand around the block boundaries (quick) or anywhere (thorough)
		if (verifrt.Tier() > 0 || i == 3 || i == 6 || i == 7 || i == 8 || i == 14 || i == 15 || i == 16) && verifrt.Bool("nl") {
			body[i] = '\n'
		}
	}
	r := bytes.NewReader(body)
	dst := make([]byte, 0, 8) // the block buffer: exactly one block, as after the first call in production
	var tail []byte
	var got [][]byte
	var err error
	for iter := 0; iter <= 2*n+2; iter++ {
		dst, tail, err = ReadLinesBlockExt(r, dst, tail, 64, 8)
		if err != nil {
			break
		}
		got = append(got, verifC06Lines(dst)...) // what the row parser sees: the non-empty lines of each block
	}
	verifrt.Assert(err == io.EOF, "the stream did not end with io.EOF")
	want := verifC06Lines(body)
	verifrt.Assert(len(got) == len(want), "the blocks delivered hold a different number of lines than the request body")
	for i := range want {
		verifrt.Assert(bytes.Equal(got[i], want[i]), "a line was altered, split or re-ordered by the block reader")
	}
	verifrt.Reach("end")
}
