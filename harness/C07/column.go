//go:build verif

package immutable

import (
	"github.com/openGemini/openGemini/lib/record"
	"github.com/openGemini/openGemini/lib/util/lifted/vm/protoparser/influx"
	"github.com/openGemini/openGemini/lib/verifrt"
)

// The string coder's compressor never pays in this harness (the packed block is at most a few dozen bytes):
// it is replaced by a stub that returns marker+source, which the coder rejects in favour of the raw form.
//verif:stub github.com/klauspost/compress/snappy.Encode = verifC07NoGain

func verifC07NoGain(dst, src []byte) []byte {
	out := make([]byte, 0, len(src)+1)
	out = append(out, 0xC3)
	return append(out, src...)
}

func verifC07ColumnRoundTrip(ref record.Field, col, timeCol *record.ColVal) *record.ColVal {
	b := NewColumnBuilder()
	cm := &ColumnMeta{entries: make([]Segment, 1)}
	b.set(nil, cm)
	verifrt.Assert(b.initEncoder(ref) == nil, "initEncoder failed")
	data, err := b.EncodeColumn(ref, col, []record.ColVal{*timeCol}, 16, 0)
	verifrt.Assert(err == nil, "column encode failed")
	verifrt.Assert(len(data) > 0, "column encoded to nothing")
	if data[0] == 0 {
		verifrt.Reach("never")
	}
	ctx := NewReadContext(true)
	out := &record.ColVal{}
	verifrt.Assert(decodeColumnData(&ref, data, out, ctx, false) == nil, "column decode failed")
	return out
}

// VerifC07StringColumn: a stored string column segment (1..2 rows, nulls, empty strings - the one-row short
// form included) reads back with the same rows: same nulls, same bytes; an empty string is not a null.
func VerifC07StringColumn() {
	n := 1 + verifrt.Choose("n", 2)
	var col, timeCol record.ColVal
	vals, nulls := make([]string, n), make([]bool, n)
	for i := 0; i < n; i++ {
		nulls[i] = verifrt.Bool("null")
		vals[i] = verifrt.String("s", verifrt.Choose("slen", 3))
		if nulls[i] {
			col.AppendStringNull()
		} else {
			col.AppendString(vals[i])
		}
		timeCol.AppendInteger(int64(i))
	}
	out := verifC07ColumnRoundTrip(record.Field{Name: "s", Type: influx.Field_Type_String}, &col, &timeCol)
	verifrt.Assert(out.Len == n, "row count differs after the column round trip")
	for i := 0; i < n; i++ {
		verifrt.Assert(out.IsNil(i) == nulls[i], "a value became null or a null became a value")
		if !nulls[i] {
			v, _ := out.StringValueSafe(i)
			verifrt.Assert(v == vals[i], "string value differs after the column round trip")
		}
	}
	if n == 1 {
		verifrt.Reach("one-row")
	}
	verifrt.Reach("end")
}

// VerifC07IntColumn: the same for an integer column (one-row short form, full and partly-null headers).
func VerifC07IntColumn() {
	n := 1 + verifrt.Choose("n", 2)
	var col, timeCol record.ColVal
	vals, nulls := make([]int64, n), make([]bool, n)
	for i := 0; i < n; i++ {
		nulls[i], vals[i] = verifrt.Bool("null"), verifrt.Int64("v")
		if nulls[i] {
			col.AppendIntegerNull()
		} else {
			col.AppendInteger(vals[i])
		}
		timeCol.AppendInteger(int64(i))
	}
	out := verifC07ColumnRoundTrip(record.Field{Name: "v", Type: influx.Field_Type_Int}, &col, &timeCol)
	verifrt.Assert(out.Len == n, "row count differs after the column round trip")
	for i := 0; i < n; i++ {
		verifrt.Assert(out.IsNil(i) == nulls[i], "a value became null or a null became a value")
		if !nulls[i] {
			v, _ := out.IntegerValue(i)
			verifrt.Assert(v == vals[i], "integer value differs after the column round trip")
		}
	}
	verifrt.Reach("end")
}
