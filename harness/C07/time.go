//go:build verif

package encoding

import (
	"github.com/openGemini/openGemini/lib/util"
	"github.com/openGemini/openGemini/lib/verifrt"
)

// verifTimeBlock: n timestamps through the real timestamp block codec. The codec divides the deltas
// by the largest power of ten that divides them all; a solver cannot mix that 64-bit division with
// the bit packing of simple8b in reasonable time, so the input space is covered by two regions:
// wide = arbitrary 64-bit timestamps whose consecutive (wrapping) differences are odd (no common
// power of ten, every packing mode, extremes and wrap-around), and !wide = ascending timestamps below 2^16
// with arbitrary differences (common factors 1, 10, ... 10^4).
func verifTimeBlock(ctx *CoderContext, n int, stale int, wide bool) {
	in := make([]int64, n)
	for i := range in {
		in[i] = verifrt.Int64("t")
		if wide {
			if i > 0 {
				verifrt.Assume((in[i]-in[i-1])&1 == 1)
			}
		} else {
			verifrt.Assume(in[i] >= 0 && in[i] < 1<<16)
			if i > 0 {
				verifrt.Assume(in[i] >= in[i-1])
			}
		}
	}
	verifShrink = verifrt.Bool("shrink")
	out, err := EncodeTimestampBlock(util.Int64Slice2byte(in), nil, ctx)
	verifrt.Assert(err == nil, "time encode failed")
	switch out[0] >> 4 {
	case timeUncompressed:
		verifrt.Reach("mode:raw")
	case timeCompressedConstDelta:
		verifrt.Reach("mode:constdelta")
	case timeCompressedSimple8b:
		verifrt.Reach("mode:simple8b")
	case timeCompressSnappy:
		verifrt.Reach("mode:snappy")
	}
	buf := verifStaleBuf(stale)
	back, err := DecodeTimestampBlock(out, &buf, ctx)
	verifrt.Assert(err == nil, "time decode failed")
	verifrt.Assert(len(back) == n, "time decoded length differs")
	for i := 0; i < n; i++ {
		verifrt.Assert(back[i] == in[i], "time round trip value differs")
	}
}

// VerifC07TimeWide: one block of 1..4 (thorough 5) arbitrary 64-bit timestamps with odd differences (not
// necessarily ascending: the codec works on wrapping differences).
func VerifC07TimeWide() {
	n := verifrt.Choose("n", 4+verifrt.Tier()) + 1
	ctx := NewCoderContext()
	verifTimeBlock(ctx, n, 0, true)
	verifrt.Reach("end")
}

// VerifC07TimeScaled: one block of 3 (thorough 3..4) ascending timestamps below 2^16 with arbitrary differences (common power-of-ten factors).
func VerifC07TimeScaled() {
	n := verifrt.Choose("n", 1+verifrt.Tier()) + 3
	ctx := NewCoderContext()
	verifTimeBlock(ctx, n, 0, false)
	verifrt.Reach("end")
}

// VerifC07TimeTwoBlocks: pooled coder state (deltas, scale, values) across two blocks; second block
// decoded into a re-used buffer (too small / large enough).
func VerifC07TimeTwoBlocks() {
	ctx := NewCoderContext()
	verifTimeBlock(ctx, 3, 0, false)
	verifTimeBlock(ctx, 3, 12+28*verifrt.Choose("stale", 1+verifrt.Tier()), true)
	verifrt.Reach("end")
}
