//go:build verif

package encoding

import (
	"math"

	"github.com/openGemini/openGemini/lib/util"
	"github.com/openGemini/openGemini/lib/verifrt"
)

// verifFloatBlock pushes n float64 bit patterns (NaN payloads, signed zeros, infinities included)
// through the real float block codec and demands bit identity.
func verifFloatBlock(ctx *CoderContext, n int, distinctRuns bool) {
	in := make([]float64, n)
	for i := range in {
		in[i] = verifrt.Float64("f")
	}
	if distinctRuns {
		// steer towards the run-length mode: at least one change of value
		verifrt.Assume(math.Float64bits(in[0]) != math.Float64bits(in[n-1]))
	}
	out, err := EncodeFloatBlock(util.Float64Slice2byte(in), nil, ctx)
	verifrt.Assert(err == nil, "float encode failed")
	if len(out) > 0 {
		switch out[0] >> 4 {
		case 0:
			verifrt.Reach("mode:raw")
		case 4:
			verifrt.Reach("mode:same")
		case 5:
			verifrt.Reach("mode:rle")
		}
	}
	var buf []byte
	back, err := DecodeFloatBlock(out, &buf, ctx)
	verifrt.Assert(err == nil, "float decode failed")
	verifrt.Assert(len(back) == n, "float decoded length differs")
	for i := 0; i < n; i++ {
		verifrt.Assert(math.Float64bits(back[i]) == math.Float64bits(in[i]), "float round trip is not bit-identical")
	}
}

// VerifC07FloatSmall: blocks of 1..4 values (stored uncompressed) and of 5 values (same-value or run-length mode).
func VerifC07FloatSmall() {
	n := verifrt.Choose("n", 5) + 1
	ctx := NewCoderContext()
	verifFloatBlock(ctx, n, false)
	verifrt.Reach("end")
}

// VerifC07FloatRuns: 6 (thorough 6..8) values in at least two runs, then a short block through the same coder.
func VerifC07FloatRuns() {
	n := 6 + verifrt.Choose("n", 1+2*verifrt.Tier())
	ctx := NewCoderContext()
	verifFloatBlock(ctx, n, true)
	verifFloatBlock(ctx, 2, false)
	verifrt.Reach("end")
}

// VerifC07FloatWide: 9 pairwise-different neighbours, so that the run-length modes are skipped and the
// encoder chooses between the Gorilla and the snappy body (NaN, infinities and signed zeros included).
// The Gorilla body (lifted tsm1 code) is replaced by its contract: it refuses a block whose first
// value is NaN or whose running sum becomes NaN, otherwise it is an ideal compressor.
func VerifC07FloatWide() {
	n := 9 + verifrt.Choose("n", 1+verifrt.Tier())
	in := make([]float64, n)
	for i := range in {
		in[i] = verifrt.Float64("f")
		if i > 0 {
			verifrt.Assume(math.Float64bits(in[i]) != math.Float64bits(in[i-1]))
		}
	}
	verifShrink = verifrt.Bool("shrink")
	ctx := NewCoderContext()
	out, err := EncodeFloatBlock(util.Float64Slice2byte(in), nil, ctx)
	verifrt.Assert(err == nil, "float encode failed")
	switch out[0] >> 4 {
	case 0:
		verifrt.Reach("mode:raw")
	case 2:
		verifrt.Reach("mode:snappy")
	case 3:
		verifrt.Reach("mode:gorilla")
	}
	buf := verifStaleBuf(16 * verifrt.Choose("stale", 2))
	back, err := DecodeFloatBlock(out, &buf, ctx)
	verifrt.Assert(err == nil, "float decode failed")
	verifrt.Assert(len(back) == n, "float decoded length differs")
	for i := 0; i < n; i++ {
		verifrt.Assert(math.Float64bits(back[i]) == math.Float64bits(in[i]), "float round trip is not bit-identical")
	}
	verifrt.Reach("end")
}
