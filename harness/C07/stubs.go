//go:build verif

package encoding

import (
	"errors"
	"io"

	"math"

	gsnappy "github.com/golang/snappy"
	ksnappy "github.com/klauspost/compress/snappy"
	"github.com/klauspost/compress/zstd"
	"github.com/openGemini/openGemini/lib/util"
)

// Compressor bodies are replaced, during symbolic execution only, by an *ideal compressor*:
// Encode files the source under a fresh one-byte ticket and returns either just the ticket (the
// compressor "pays", chosen by the harness through verifShrink) or ticket+source (it does
// not); Decode looks the ticket up. This keeps exactly the contract the codecs rely on
// (decode(encode(x)) = x, arbitrary output length, written into dst when it fits) and lets both the
// "compressed" and the "fall back to uncompressed" branches be explored. Natively the real
// compressors run.

//verif:stub github.com/klauspost/compress/zstd.NewWriter = verifZstdNewWriter
//verif:stub github.com/klauspost/compress/zstd.NewReader = verifZstdNewReader
//verif:stub (*github.com/klauspost/compress/zstd.Encoder).EncodeAll = verifZstdEncodeAll
//verif:stub (*github.com/klauspost/compress/zstd.Decoder).DecodeAll = verifZstdDecodeAll
//verif:stub github.com/klauspost/compress/snappy.Encode = verifS2Encode
//verif:stub github.com/klauspost/compress/snappy.Decode = verifS2Decode
//verif:stub github.com/golang/snappy.Encode = verifSnappyEncode
//verif:stub github.com/golang/snappy.Decode = verifSnappyDecode
//verif:stub github.com/golang/snappy.DecodedLen = verifSnappyDecodedLen
//verif:stub github.com/influxdata/influxdb/tsdb/engine/tsm1.FloatArrayEncodeAll = verifGorillaEncodeAll
//verif:stub github.com/influxdata/influxdb/tsdb/engine/tsm1.FloatArrayDecodeAll = verifGorillaDecodeAll
//verif:stub github.com/openGemini/openGemini/lib/util/lifted/encoding/lz4.CompressBlock = verifLz4CompressBlock
//verif:stub github.com/openGemini/openGemini/lib/util/lifted/encoding/lz4.DecompressSafe = verifLz4DecompressSafe
//verif:stub github.com/openGemini/openGemini/lib/util/lifted/encoding/lz4.CompressBlockBound = verifLz4Bound

var (
	verifBlobs  [][]byte
	verifShrink bool
)

var errVerifCorrupt = errors.New("verif: corrupt compressed data")

func verifTicket(src []byte) []byte {
	id := byte(len(verifBlobs))
	verifBlobs = append(verifBlobs, append([]byte(nil), src...))
	if verifShrink {
		return []byte{id}
	}
	tok := make([]byte, 1+len(src))
	tok[0] = id
	copy(tok[1:], src)
	return tok
}

func verifLookup(tok []byte) ([]byte, bool) {
	if len(tok) == 0 {
		return nil, false
	}
	id := int(tok[0])
	if id >= len(verifBlobs) {
		return nil, false
	}
	b := verifBlobs[id]
	if len(tok) != 1 && len(tok) != 1+len(b) {
		return nil, false
	}
	return b, true
}

func verifZstdNewWriter(w io.Writer, opts ...zstd.EOption) (*zstd.Encoder, error) {
	return &zstd.Encoder{}, nil
}
func verifZstdNewReader(r io.Reader, opts ...zstd.DOption) (*zstd.Decoder, error) {
	return &zstd.Decoder{}, nil
}
func verifZstdEncodeAll(e *zstd.Encoder, src, dst []byte) []byte {
	return append(dst, verifTicket(src)...)
}
func verifZstdDecodeAll(d *zstd.Decoder, input, dst []byte) ([]byte, error) {
	b, ok := verifLookup(input)
	if !ok {
		return dst, errVerifCorrupt
	}
	return append(dst, b...), nil
}

// golang/snappy.Encode writes into dst when len(dst) >= MaxEncodedLen(len(src)), else allocates.
func verifSnappyEncode(dst, src []byte) []byte {
	n := gsnappy.MaxEncodedLen(len(src))
	if len(dst) < n {
		dst = make([]byte, n)
	}
	tok := verifTicket(src)
	copy(dst, tok)
	return dst[:len(tok)]
}

// klauspost snappy.Encode (s2.EncodeSnappyBetter) writes into dst when cap(dst) >= MaxEncodedLen(len(src)).
func verifS2Encode(dst, src []byte) []byte {
	n := ksnappy.MaxEncodedLen(len(src))
	if cap(dst) < n {
		dst = make([]byte, n)
	} else {
		dst = dst[:n]
	}
	tok := verifTicket(src)
	copy(dst, tok)
	return dst[:len(tok)]
}

// golang/snappy.Decode re-uses dst when len(dst) suffices.
func verifSnappyDecode(dst, src []byte) ([]byte, error) {
	b, ok := verifLookup(src)
	if !ok {
		return nil, errVerifCorrupt
	}
	if len(b) <= len(dst) {
		dst = dst[:len(b)]
	} else {
		dst = make([]byte, len(b))
	}
	copy(dst, b)
	return dst, nil
}

// klauspost snappy.Decode (s2.Decode) re-uses dst when cap(dst) suffices.
func verifS2Decode(dst, src []byte) ([]byte, error) {
	b, ok := verifLookup(src)
	if !ok {
		return nil, errVerifCorrupt
	}
	if len(b) <= cap(dst) {
		dst = dst[:len(b)]
	} else {
		dst = make([]byte, len(b))
	}
	copy(dst, b)
	return dst, nil
}

func verifSnappyDecodedLen(src []byte) (int, error) {
	b, ok := verifLookup(src)
	if !ok {
		return 0, errVerifCorrupt
	}
	return len(b), nil
}

func verifLz4Bound(size int) int { return size + size/255 + 16 }

func verifLz4CompressBlock(src, dst []byte) (int, error) {
	tok := verifTicket(src)
	if len(dst) < len(tok) {
		return 0, errVerifCorrupt
	}
	copy(dst, tok)
	return len(tok), nil
}

func verifLz4DecompressSafe(src, dst []byte) (int, error) {
	b, ok := verifLookup(src)
	if !ok || len(dst) < len(b) {
		return 0, errVerifCorrupt
	}
	copy(dst, b)
	return len(b), nil
}

// Contract of tsm1.FloatArrayEncodeAll: the first byte is the Gorilla marker 0x10; a block whose first
// value is NaN, or whose running sum of the remaining values is NaN, is refused.
func verifGorillaEncodeAll(src []float64, b []byte) ([]byte, error) {
	if len(src) > 0 && math.IsNaN(src[0]) {
		return nil, errVerifCorrupt
	}
	var sum float64
	for i := 1; i < len(src); i++ {
		sum += src[i]
	}
	if math.IsNaN(sum) {
		return nil, errVerifCorrupt
	}
	b = append(b[:0], 0x10)
	return append(b, verifTicket(util.Float64Slice2byte(src))...), nil
}

func verifGorillaDecodeAll(b []byte, buf []float64) ([]float64, error) {
	if len(b) < 2 {
		return []float64{}, nil
	}
	blob, ok := verifLookup(b[1:])
	if !ok {
		return nil, errVerifCorrupt
	}
	return append(buf[:0], util.Bytes2Float64Slice(blob)...), nil
}
