//go:build verif

package encoding

import (
	"github.com/openGemini/openGemini/lib/util"
	"github.com/openGemini/openGemini/lib/verifrt"
)

// verifStaleBuf models the destination the column readers pass: empty (col.Init() truncates it), but
// possibly a re-used allocation of `stale` bytes that still holds old data.
func verifStaleBuf(stale int) []byte {
	if stale == 0 {
		return nil
	}
	return verifrt.Bytes("stale", stale)[:0]
}

// verifIntBlock: n arbitrary int64 through the real integer block codec, decoded into an empty
// destination with `stale` bytes of re-used capacity.
func verifIntBlock(ctx *CoderContext, n int, stale int) {
	in := make([]int64, n)
	for i := range in {
		in[i] = verifrt.Int64("v")
	}
	verifShrink = verifrt.Bool("shrink")
	out, err := EncodeIntegerBlock(util.Int64Slice2byte(in), nil, ctx)
	verifrt.Assert(err == nil, "encode failed")
	if len(out) > 0 {
		switch out[0] >> 4 {
		case intUncompressed:
			verifrt.Reach("mode:raw")
		case intCompressedConstDelta:
			verifrt.Reach("mode:constdelta")
		case intCompressedSimple8b:
			verifrt.Reach("mode:simple8b")
		case intCompressZSTD:
			verifrt.Reach("mode:zstd")
		}
	}
	buf := verifStaleBuf(stale)
	back, err := DecodeIntegerBlock(out, &buf, ctx)
	verifrt.Assert(err == nil, "decode failed")
	verifrt.Assert(len(back) == n, "decoded length differs")
	for i := 0; i < n; i++ {
		verifrt.Assert(back[i] == in[i], "round trip value differs")
	}
}

// VerifC07Int: one block of n int64 through the pooled integer coder.
func VerifC07Int() {
	n := verifrt.Choose("n", 4+2*verifrt.Tier()) + 1
	ctx := NewCoderContext()
	verifIntBlock(ctx, n, 0)
	verifrt.Reach("end")
}

// VerifC07IntTwoBlocks: two blocks through the same pooled coder (its scratch state must not leak
// from one block into the next), the second decoded into a re-used buffer that is too small (12 bytes) or large enough (40 bytes).
func VerifC07IntTwoBlocks() {
	ctx := NewCoderContext()
	verifIntBlock(ctx, 3+verifrt.Choose("n1", 1+verifrt.Tier()), 0)
	verifIntBlock(ctx, 3-2*verifrt.Choose("n2", 1+verifrt.Tier()), 12+28*verifrt.Choose("stale", 1+verifrt.Tier()))
	verifrt.Reach("end")
}
