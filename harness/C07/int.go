//go:build verif

package encoding

import (
	"io"

	"github.com/klauspost/compress/zstd"
	"github.com/openGemini/openGemini/lib/util"
	"github.com/openGemini/openGemini/lib/verifrt"
)

//verif:stub github.com/klauspost/compress/zstd.NewWriter = verifZstdNewWriter
//verif:stub github.com/klauspost/compress/zstd.NewReader = verifZstdNewReader
//verif:stub (*github.com/klauspost/compress/zstd.Encoder).EncodeAll = verifZstdEncodeAll
//verif:stub (*github.com/klauspost/compress/zstd.Decoder).DecodeAll = verifZstdDecodeAll

func verifZstdNewWriter(w io.Writer, opts ...zstd.EOption) (*zstd.Encoder, error) {
	return &zstd.Encoder{}, nil
}
func verifZstdNewReader(r io.Reader, opts ...zstd.DOption) (*zstd.Decoder, error) {
	return &zstd.Decoder{}, nil
}
func verifZstdEncodeAll(e *zstd.Encoder, src, dst []byte) []byte { return append(dst, src...) }
func verifZstdDecodeAll(d *zstd.Decoder, input, dst []byte) ([]byte, error) {
	return append(dst, input...), nil
}

func verifIntBlock(ctx *CoderContext, n int, tag string) {
	in := make([]int64, n)
	for i := range in {
		in[i] = verifrt.Int64("v")
	}
	out, err := EncodeIntegerBlock(util.Int64Slice2byte(in), nil, ctx)
	verifrt.Assert(err == nil, "encode failed")
	var buf []byte
	back, err := DecodeIntegerBlock(out, &buf, ctx)
	verifrt.Assert(err == nil, "decode failed")
	verifrt.Assert(len(back) == n, "decoded length differs")
	for i := 0; i < n; i++ {
		verifrt.Assert(back[i] == in[i], "round trip value differs")
	}
}

// VerifC07Int: one block of n int64 through the pooled integer coder.
func VerifC07Int() {
	n := verifrt.Choose("n", 4) + 1
	ctx := NewCoderContext()
	verifIntBlock(ctx, n, "a")
	verifrt.Reach("end")
}
