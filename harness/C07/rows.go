//go:build verif

package influx

import (
	"math"

	"github.com/openGemini/openGemini/lib/verifrt"
)

func verifC07Row(maxStr int) Row {
	var r Row
	r.Name = verifrt.String("name", 1+verifrt.Choose("nameLen", maxStr))
	r.ShardKey = verifrt.Bytes("sk", verifrt.Choose("skLen", maxStr+1))
	nt := verifrt.Choose("ntags", 3)
	for i := 0; i < nt; i++ {
		r.Tags = append(r.Tags, Tag{Key: verifrt.String("tk", 1+verifrt.Choose("tkLen", maxStr)), Value: verifrt.String("tv", verifrt.Choose("tvLen", maxStr+1))})
	}
	nf := 1 + verifrt.Choose("nfields", 2)
	for i := 0; i < nf; i++ {
		f := Field{Key: verifrt.String("fk", 1+verifrt.Choose("fkLen", maxStr))}
		switch verifrt.Choose("ftype", 4) {
		case 0:
			f.Type, f.NumValue = Field_Type_Float, verifrt.Float64("fnum")
		case 1:
			f.Type, f.NumValue = Field_Type_Int, verifrt.Float64("fnum")
		case 2:
			f.Type, f.NumValue = Field_Type_Boolean, verifrt.Float64("fnum")
		default:
			f.Type, f.StrValue = Field_Type_String, verifrt.String("fstr", verifrt.Choose("fstrLen", maxStr+1))
		}
		r.Fields = append(r.Fields, f)
	}
	r.Timestamp = verifrt.Int64("ts")
	return r
}

func verifC07SameRow(a, b *Row) bool {
	if a.Name != b.Name || a.Timestamp != b.Timestamp || len(a.Tags) != len(b.Tags) || len(a.Fields) != len(b.Fields) || len(a.ShardKey) != len(b.ShardKey) {
		return false
	}
	for i := range a.ShardKey {
		if a.ShardKey[i] != b.ShardKey[i] {
			return false
		}
	}
	for i := range a.Tags {
		if a.Tags[i].Key != b.Tags[i].Key || a.Tags[i].Value != b.Tags[i].Value {
			return false
		}
	}
	for i := range a.Fields {
		x, y := &a.Fields[i], &b.Fields[i]
		if x.Key != y.Key || x.Type != y.Type || x.StrValue != y.StrValue || math.Float64bits(x.NumValue) != math.Float64bits(y.NumValue) {
			return false
		}
	}
	return true
}

// VerifC07RowBatch: the row-batch codec shared by the write-ahead log and the store RPC. A batch of 1..2
// rows (arbitrary measurement, shard key, tags, typed fields with arbitrary bit patterns, timestamp)
// decodes to the same rows, bit for bit; and no strict prefix of the encoding decodes into rows at all -
// a batch cut short is recognised as incomplete, never turned into fabricated rows.
func VerifC07RowBatch() {
	n := 1 + verifrt.Choose("nrows", 1+verifrt.Tier())
	rows := make([]Row, n)
	for i := range rows {
		rows[i] = verifC07Row(1 + verifrt.Tier())
	}
	enc, err := FastMarshalMultiRows(nil, rows)
	verifrt.Assert(err == nil, "row batch encode failed")
	// the decoder is handed re-used rows (WAL replay and the points decoder only truncate their row
	// slice): whatever the previous batch left in them must not show up in this one
	var reused []Row
	if verifrt.Bool("reusedRows") {
		reused = make([]Row, 2)
		for i := range reused {
			reused[i] = Row{Name: "old", Timestamp: 7, ShardKey: []byte("sk"), Tags: PointTags{{Key: "ok", Value: "ov"}},
				Fields: Fields{{Key: "of", Type: Field_Type_Int, NumValue: 1}}, IndexOptions: IndexOptions{{Oid: 3, IndexList: []uint16{1}}}}
		}
		reused = reused[:0]
		verifrt.Reach("reused")
	}
	back, _, _, _, _, err := FastUnmarshalMultiRows(enc, reused, nil, nil, nil, nil)
	verifrt.Assert(err == nil, "row batch decode failed")
	verifrt.Assert(len(back) == n, "row count differs after the round trip")
	for i := range rows {
		verifrt.Assert(verifC07SameRow(&back[i], &rows[i]), "row differs after the round trip")
		verifrt.Assert(len(back[i].IndexOptions) == 0, "a decoded row carries index options that were not encoded")
	}
	// a strict prefix (at least the 5-byte batch header, which the framing layer always delivers whole)
	cut := 5 + verifrt.Choose("cut", len(enc)-5)
	prefix := append(make([]byte, 0, len(enc)+8), enc[:cut]...) // spare capacity as in the pooled buffers the decoder is given
	got, perr := verifC07DecodeNoPanic(prefix)
	verifrt.Assert(perr != nil || len(got) == 0, "a row batch cut short was decoded into rows")
	verifrt.Reach("end")
}

// verifC07DecodeNoPanic: a panic on damaged input is not what this check is about (the framing layers
// never hand a cut batch to the decoder); a successful decode would be.
func verifC07DecodeNoPanic(b []byte) (rows []Row, err error) {
	defer func() {
		if r := recover(); r != nil {
			rows, err = nil, ErrInvalidPoint
		}
	}()
	rows, _, _, _, _, err = FastUnmarshalMultiRows(b, nil, nil, nil, nil, nil)
	return rows, err
}
