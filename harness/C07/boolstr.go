//go:build verif

package encoding

import (
	"github.com/openGemini/openGemini/lib/util"
	"github.com/openGemini/openGemini/lib/verifrt"
)

func verifBoolBlock(ctx *CoderContext, n int, stale int) {
	in := make([]bool, n)
	for i := range in {
		in[i] = verifrt.Bool("b")
	}
	out, err := EncodeBooleanBlock(util.BooleanSlice2byte(in), nil, ctx)
	verifrt.Assert(err == nil, "bool encode failed")
	buf := verifStaleBuf(stale)
	back, err := DecodeBooleanBlock(out, &buf, ctx)
	verifrt.Assert(err == nil, "bool decode failed")
	verifrt.Assert(len(back) == n, "bool decoded length differs")
	for i := 0; i < n; i++ {
		verifrt.Assert(back[i] == in[i], "bool round trip value differs")
	}
}

// VerifC07Bool: blocks of 1..9 booleans (crossing the byte boundary of the bit packer), twice
// through the same pooled coder.
func VerifC07Bool() {
	ctx := NewCoderContext()
	verifBoolBlock(ctx, verifrt.Choose("n", 9)+1, 0)
	verifBoolBlock(ctx, 2, 1+8*verifrt.Choose("stale", 2))
	verifrt.Reach("end")
}

func verifStringBlock(ctx *CoderContext, n int, maxLen int, prefix bool) {
	var data []byte
	offs := make([]uint32, n)
	lens := make([]int, n)
	for i := 0; i < n; i++ {
		offs[i] = uint32(len(data))
		lens[i] = verifrt.Choose("len", maxLen+1)
		data = append(data, verifrt.Bytes("s", lens[i])...)
	}
	verifShrink = verifrt.Bool("shrink")
	out, err := EncodeStringBlock(data, offs, nil, ctx)
	verifrt.Assert(err == nil, "string encode failed")
	switch out[0] >> 4 {
	case stringUncompressed:
		verifrt.Reach("mode:raw")
	default:
		verifrt.Reach("mode:compressed")
	}
	var buf []byte
	var dstOff []uint32
	if prefix {
		dstOff = make([]uint32, 0, 8)
	}
	back, backOff, err := DecodeStringBlock(out, &buf, &dstOff, ctx)
	if err != nil {
		verifrt.Observe("decode error", err.Error())
	}
	verifrt.Assert(err == nil, "string decode failed")
	verifrt.Assert(len(backOff) == n, "string count differs")
	verifrt.Assert(len(back) == len(data), "string data length differs")
	for i := 0; i < n; i++ {
		verifrt.Assert(backOff[i] == offs[i], "string offset differs")
	}
	for i := range data {
		verifrt.Assert(back[i] == data[i], "string bytes differ")
	}
}

// VerifC07String: 1..3 strings of 0..3 arbitrary bytes (empty strings included) through each of
// the three compressor selections, twice through the same pooled coder.
func VerifC07String() {
	ctx := NewCoderContext()
	ctx.stringCoder = GetStringCoder()
	ctx.buf = ctx.buf[:0]
	ctx.stringCoder.SetEncodingType([]int{stringCompressedSnappy, StringCompressedZstd, StringCompressedLz4}[verifrt.Choose("algo", 3)])
	verifStringBlock(ctx, verifrt.Choose("n", 3)+1, 2+verifrt.Tier(), false)
	verifStringBlock(ctx, 2, 1, true)
	verifrt.Reach("end")
}
