//go:build verif

package immutable

import (
	"io"
	"io/fs"
	"os"
	"path/filepath"
	"sort"
	"strings"
	"time"

	"github.com/openGemini/openGemini/lib/config"
	"github.com/openGemini/openGemini/lib/fileops"
	"github.com/openGemini/openGemini/lib/request"
	"github.com/openGemini/openGemini/lib/verifrt"
)

// In-memory model of the file layer for symbolic execution (natively a real temporary directory is used):
// files by name, directory listing sorted by name, rename, remove, stat.

//verif:stub github.com/openGemini/openGemini/lib/fileops.OpenFile = verifC03OpenFile
//verif:stub github.com/openGemini/openGemini/lib/fileops.ReadDir = verifC03ReadDir
//verif:stub github.com/openGemini/openGemini/lib/fileops.MkdirAll = verifC03MkdirAll
//verif:stub github.com/openGemini/openGemini/lib/fileops.Remove = verifC03Remove
//verif:stub github.com/openGemini/openGemini/lib/fileops.RenameFile = verifC03Rename
//verif:stub github.com/openGemini/openGemini/lib/fileops.Stat = verifC03Stat

type verifC03Node struct{ data []byte }

var verifC03Files map[string]*verifC03Node

type verifC03File struct {
	name string
	n    *verifC03Node
	pos  int64
}

func (f *verifC03File) Close() error { return nil }
func (f *verifC03File) Read(p []byte) (int, error) {
	if f.pos >= int64(len(f.n.data)) {
		return 0, io.EOF
	}
	n := copy(p, f.n.data[f.pos:])
	f.pos += int64(n)
	return n, nil
}
func (f *verifC03File) Seek(offset int64, whence int) (int64, error) { f.pos = offset; return offset, nil }
func (f *verifC03File) Write(p []byte) (int, error) {
	f.n.data = append(f.n.data[:f.pos], p...)
	f.pos += int64(len(p))
	return len(p), nil
}
func (f *verifC03File) ReadAt(p []byte, off int64) (int, error) {
	if off >= int64(len(f.n.data)) {
		return 0, io.EOF
	}
	return copy(p, f.n.data[off:]), nil
}
func (f *verifC03File) Name() string              { return f.name }
func (f *verifC03File) Truncate(size int64) error { f.n.data = f.n.data[:size]; return nil }
func (f *verifC03File) Sync() error               { return nil }
func (f *verifC03File) Stat() (os.FileInfo, error) {
	return verifC03Info{name: f.name, size: int64(len(f.n.data))}, nil
}
func (f *verifC03File) SyncUpdateLength() error { return nil }
func (f *verifC03File) Fd() uintptr             { return 0 }
func (f *verifC03File) Size() (int64, error)    { return int64(len(f.n.data)), nil }
func (f *verifC03File) StreamReadBatch([]int64, []int64, int64, chan *request.StreamReader, int, bool) {
}

type verifC03Info struct {
	name string
	size int64
}

func (i verifC03Info) Name() string       { return filepath.Base(i.name) }
func (i verifC03Info) Size() int64        { return i.size }
func (i verifC03Info) Mode() fs.FileMode  { return 0600 }
func (i verifC03Info) ModTime() time.Time { return time.Time{} }
func (i verifC03Info) IsDir() bool        { return false }
func (i verifC03Info) Sys() any           { return nil }

func verifC03OpenFile(name string, flag int, perm os.FileMode, opt ...fileops.FSOption) (fileops.File, error) {
	if verifC03Files == nil {
		verifC03Files = map[string]*verifC03Node{}
	}
	n := verifC03Files[name]
	if n == nil {
		if flag&os.O_CREATE == 0 {
			return nil, os.ErrNotExist
		}
		n = &verifC03Node{}
		verifC03Files[name] = n
	}
	return &verifC03File{name: name, n: n}, nil
}

func verifC03ReadDir(dirname string) ([]fs.FileInfo, error) {
	var names []string
	for nm := range verifC03Files {
		if filepath.Dir(nm) == dirname {
			names = append(names, nm)
		}
	}
	sort.Strings(names)
	var out []fs.FileInfo
	for _, nm := range names {
		out = append(out, verifC03Info{name: nm, size: int64(len(verifC03Files[nm].data))})
	}
	return out, nil
}

func verifC03MkdirAll(path string, perm os.FileMode, opt ...fileops.FSOption) error { return nil }

func verifC03Remove(name string, opt ...fileops.FSOption) error {
	if verifC03Files[name] == nil {
		return os.ErrNotExist
	}
	delete(verifC03Files, name)
	return nil
}

func verifC03Rename(oldPath, newPath string, opt ...fileops.FSOption) error {
	n := verifC03Files[oldPath]
	if n == nil {
		return os.ErrNotExist
	}
	delete(verifC03Files, oldPath)
	verifC03Files[newPath] = n
	return nil
}

func verifC03Stat(name string) (os.FileInfo, error) {
	n := verifC03Files[name]
	if n == nil {
		return nil, os.ErrNotExist
	}
	return verifC03Info{name: name, size: int64(len(n.data))}, nil
}

// ---------------------------------------------------------------------------------------------

var verifC03Tmp []string

func verifC03Root() string {
	if verifrt.Symbolic() {
		return "/s"
	}
	d, err := os.MkdirTemp("", "verif-c03-")
	if err != nil {
		panic(err)
	}
	verifC03Tmp = append(verifC03Tmp, d)
	return d
}

func verifC03Put(name string, data []byte) {
	lock := fileops.FileLockOption("")
	_ = fileops.MkdirAll(filepath.Dir(name), 0750, lock)
	fd, err := fileops.OpenFile(name, os.O_CREATE|os.O_WRONLY, 0600, lock, fileops.FilePriorityOption(fileops.IO_PRIORITY_NORMAL))
	verifrt.Assert(err == nil, "setup: cannot create file")
	_, err = fd.Write(data)
	verifrt.Assert(err == nil, "setup: cannot write file")
	_ = fd.Close()
}

// verifC03Visible lists what the loader treats as data files of the measurement: everything not ending in .init.
func verifC03Visible(mmDir string) []string {
	dirs, err := fileops.ReadDir(mmDir)
	verifrt.Assert(err == nil, "cannot list the measurement directory")
	var out []string
	for _, d := range dirs {
		if !strings.HasSuffix(d.Name(), tmpFileSuffix) {
			out = append(out, d.Name())
		}
	}
	sort.Strings(out)
	return out
}

func verifC03Same(a, b []string) bool {
	if len(a) != len(b) {
		return false
	}
	for i := range a {
		if a[i] != b[i] {
			return false
		}
	}
	return true
}

// VerifC03ReplaceCrash: the replace protocol (log written, each new file renamed from .init, each old
// file deleted, log removed) is stopped after an arbitrary step, optionally with the log itself torn;
// start-up recovery then leaves exactly the old set or exactly the new set of data files visible - never
// a mixture and never nothing - and running recovery a second time changes nothing.
func VerifC03ReplaceCrash() {
	defer func() {
		for _, d := range verifC03Tmp {
			os.RemoveAll(d)
		}
		verifC03Tmp = nil
	}()
	root := verifC03Root()
	shardDir := filepath.Join(root, "shard")
	mmDir := filepath.Join(shardDir, TsspDirName, "m_0000")
	logDir := filepath.Join(shardDir, compactLogDir)
	nOld := 1 + verifrt.Choose("nOld", 2+verifrt.Tier())
	nNew := 1 + verifrt.Choose("nNew", 2)
	oldNames := []string{"00000001-0000-00000000.tssp", "00000002-0000-00000000.tssp", "00000003-0000-00000000.tssp"}[:nOld]
	newNames := []string{"00000001-0001-00000000.tssp", "00000001-0001-00000001.tssp"}[:nNew]
	info := &CompactedFileInfo{Name: "m_0000", IsOrder: true}
	for _, o := range oldNames {
		verifC03Put(filepath.Join(mmDir, o), []byte("old"))
		info.OldFile = append(info.OldFile, o)
	}
	for _, n := range newNames {
		verifC03Put(filepath.Join(mmDir, n+tmpFileSuffix), []byte("new"))
		info.NewFile = append(info.NewFile, n+tmpFileSuffix)
	}
	logBytes := append(info.marshal(nil), compLogMagic...)
	// crash point: 0 = while writing the log (a prefix of it is on disk), 1 = log complete, then one step per
	// renamed new file, one per deleted old file
	lock := fileops.FileLockOption("")
	step := verifrt.Choose("step", 2+nNew+nOld)
	if step == 0 {
		keep := verifrt.Choose("logKept", 3) // nothing, half, all but the last byte
		n := []int{0, len(logBytes) / 2, len(logBytes) - 1}[keep]
		verifC03Put(filepath.Join(logDir, "log1"), logBytes[:n])
		verifrt.Reach("torn-log")
	} else {
		verifC03Put(filepath.Join(logDir, "log1"), logBytes)
		done := step - 1
		for i := 0; i < nNew && done > 0; i, done = i+1, done-1 {
			err := fileops.RenameFile(filepath.Join(mmDir, newNames[i]+tmpFileSuffix), filepath.Join(mmDir, newNames[i]), lock)
			verifrt.Assert(err == nil, "setup: rename failed")
		}
		for i := 0; i < nOld && done > 0; i, done = i+1, done-1 {
			err := fileops.Remove(filepath.Join(mmDir, oldNames[i]), lock)
			verifrt.Assert(err == nil, "setup: remove failed")
		}
	}
	lockPath := ""
	err := procCompactLog(shardDir, logDir, &lockPath, config.TSSTORE)
	verifrt.Assert(err == nil, "recovery failed on a state the replace protocol produces")
	vis := verifC03Visible(mmDir)
	isOld, isNew := verifC03Same(vis, oldNames), verifC03Same(vis, newNames)
	verifrt.Assert(isOld || isNew, "after recovery the visible data files are neither exactly the old set nor exactly the new set")
	if step >= 2 {
		// once a new file is visible under its final name the replace must be completed, never rolled back
		verifrt.Assert(isNew, "recovery did not complete a replace whose new files were already visible")
		verifrt.Reach("rolled-forward")
	}
	if isOld {
		verifrt.Reach("kept-old")
	}
	err = procCompactLog(shardDir, logDir, &lockPath, config.TSSTORE)
	verifrt.Assert(err == nil, "second recovery pass failed")
	verifrt.Assert(verifC03Same(verifC03Visible(mmDir), vis), "a second recovery pass changed the visible files")
	verifrt.Reach("end")
}

// ---------------------------------------------------------------------------------------------
// The real MmsTables.ReplaceFiles, stopped at an arbitrary file operation.

//verif:stub github.com/openGemini/openGemini/engine/immutable.GenLogFileName = verifC03GenLogName

func verifC03GenLogName(seq *uint64) string { return "log1" }

type verifC03Crash struct{}

// verifC03CrashIn counts the file operations of data files that still complete; the one after it does not
// happen and neither does anything after it (the process is gone).
var verifC03CrashIn int

func verifC03Op() {
	if verifC03CrashIn == 0 {
		panic(verifC03Crash{})
	}
	verifC03CrashIn--
}

// verifC03Tssp is a data file as ReplaceFiles sees it: a path, a level and sequence, rename and remove.
type verifC03Tssp struct {
	TSSPFile
	path string
	seq  uint64
	ext  uint16
}

func (f *verifC03Tssp) Path() string                       { return f.path }
func (f *verifC03Tssp) Inuse() bool                        { return false }
func (f *verifC03Tssp) FreeFileHandle() error              { return nil }
func (f *verifC03Tssp) LevelAndSequence() (uint16, uint64) { return 0, f.seq }
func (f *verifC03Tssp) FileNameExtend() uint16             { return f.ext }
func (f *verifC03Tssp) Rename(newName string) error {
	verifC03Op()
	err := fileops.RenameFile(f.path, newName, fileops.FileLockOption(""))
	if err == nil {
		f.path = newName
	}
	return err
}
func (f *verifC03Tssp) Remove() error {
	verifC03Op()
	return fileops.Remove(f.path, fileops.FileLockOption(""))
}

// VerifC03ReplaceFilesCrash: MmsTables.ReplaceFiles itself (log, renames, deletions, log removal in the
// order the code performs them) is cut off at an arbitrary rename or deletion of a data file, or runs to
// the end; start-up recovery then leaves exactly the old or exactly the new set of data files visible,
// and after an uninterrupted replace the new set is visible, also in memory, and no log is left behind.
func VerifC03ReplaceFilesCrash() {
	defer func() {
		for _, d := range verifC03Tmp {
			os.RemoveAll(d)
		}
		verifC03Tmp = nil
	}()
	root := verifC03Root()
	shardDir := filepath.Join(root, "shard")
	mmDir := filepath.Join(shardDir, TsspDirName, "m_0000")
	logDir := filepath.Join(shardDir, compactLogDir)
	nOld := 1 + verifrt.Choose("nOld", 2+verifrt.Tier())
	nNew := 1 + verifrt.Choose("nNew", 2)
	oldNames := []string{"00000001-0000-00000000.tssp", "00000002-0000-00000000.tssp", "00000003-0000-00000000.tssp", "00000004-0000-00000000.tssp"}[:nOld]
	newNames := []string{"00000001-0001-00000000.tssp", "00000001-0001-00000001.tssp"}[:nNew]
	var oldFiles, newFiles []TSSPFile
	for i, o := range oldNames {
		verifC03Put(filepath.Join(mmDir, o), []byte("old"))
		oldFiles = append(oldFiles, &verifC03Tssp{path: filepath.Join(mmDir, o), seq: uint64(i + 1)})
	}
	for i, n := range newNames {
		verifC03Put(filepath.Join(mmDir, n+tmpFileSuffix), []byte("new"))
		newFiles = append(newFiles, &verifC03Tssp{path: filepath.Join(mmDir, n+tmpFileSuffix), seq: 1, ext: uint16(i)})
	}
	_ = fileops.MkdirAll(logDir, 0750, fileops.FileLockOption(""))
	lockPath := ""
	m := NewTableStore(filepath.Join(shardDir, TsspDirName), &lockPath, nil, false, GetTsStoreConfig())
	m.SetImmTableType(config.TSSTORE)
	fs := NewTSSPFiles()
	fs.files = append(fs.files, oldFiles...)
	m.Order["m_0000"] = fs

	ops := nNew + nOld
	verifC03CrashIn = verifrt.Choose("crashAt", ops+1) // == ops: no crash
	crashed := verifC03CrashIn < ops
	err := m.ReplaceFiles("m_0000", oldFiles, newFiles, true)
	verifC03CrashIn = 1 << 30
	if crashed {
		verifrt.Assert(err != nil, "setup: the injected stop did not stop the replace")
		verifrt.Reach("crashed")
	} else {
		verifrt.Assert(err == nil, "an uninterrupted replace failed")
		verifrt.Assert(verifC03Same(verifC03Visible(mmDir), newNames), "after a completed replace the visible data files are not exactly the new set")
		logs, e := fileops.ReadDir(logDir)
		verifrt.Assert(e == nil && len(logs) == 0, "a completed replace left its log behind")
		verifrt.Assert(len(fs.files) == nNew, "after a completed replace the in-memory file list is not the new set")
		for i := range fs.files {
			verifrt.Assert(fs.files[i].Path() == filepath.Join(mmDir, newNames[i]), "after a completed replace the in-memory file list is not the new set")
		}
		verifrt.Reach("completed")
	}
	err = procCompactLog(shardDir, logDir, &lockPath, config.TSSTORE)
	verifrt.Assert(err == nil, "recovery failed on a state ReplaceFiles produces")
	vis := verifC03Visible(mmDir)
	isOld, isNew := verifC03Same(vis, oldNames), verifC03Same(vis, newNames)
	verifrt.Assert(isOld || isNew, "after a replace stopped part-way and recovery, the visible data files are neither exactly the old set nor exactly the new set")
	verifrt.Reach("end")
}

// VerifC03LogCodec: the compaction log record round-trips, and no strict prefix of a record (a torn write)
// parses into a record.
func VerifC03LogCodec() {
	max := 2
	info := CompactedFileInfo{Name: verifrt.String("name", 1+verifrt.Choose("nameLen", max)), IsOrder: verifrt.Bool("order")}
	for i, n := 0, verifrt.Choose("nOld", 3); i < n; i++ {
		info.OldFile = append(info.OldFile, verifrt.String("old", verifrt.Choose("oldLen", max+1)))
	}
	for i, n := 0, verifrt.Choose("nNew", 3); i < n; i++ {
		info.NewFile = append(info.NewFile, verifrt.String("new", verifrt.Choose("newLen", max+1)))
	}
	b := info.marshal(nil)
	var back CompactedFileInfo
	verifrt.Assert(back.unmarshal(b) == nil, "unmarshal of a marshalled record failed")
	verifrt.Assert(back.Name == info.Name && back.IsOrder == info.IsOrder && len(back.OldFile) == len(info.OldFile) && len(back.NewFile) == len(info.NewFile), "record differs after the round trip")
	for i := range info.OldFile {
		verifrt.Assert(back.OldFile[i] == info.OldFile[i], "old file name differs after the round trip")
	}
	for i := range info.NewFile {
		verifrt.Assert(back.NewFile[i] == info.NewFile[i], "new file name differs after the round trip")
	}
	cut := verifrt.Choose("cut", len(b))
	var torn CompactedFileInfo
	verifrt.Assert(torn.unmarshal(b[:cut]) != nil, "a torn record was parsed as a complete one")
	verifrt.Reach("end")
}
