//go:build verif

package immutable

import (
	"github.com/openGemini/openGemini/lib/verifrt"
)

// verifC03File is a data file as far as the live file list is concerned: sequence number, extent, path.
type verifC03ListFile struct {
	TSSPFile
	seq  uint64
	ext  uint16
	path string
}

func (f *verifC03ListFile) LevelAndSequence() (uint16, uint64) { return 0, f.seq }
func (f *verifC03ListFile) FileNameExtend() uint16             { return f.ext }
func (f *verifC03ListFile) Path() string                       { return f.path }

// VerifC03FileList: the live file list of a measurement is ordered by (sequence, extent); several files may
// share a sequence number (extents of one split compaction output). Replacing files removes the old ones
// from this list: every file of the list is found at its own position and removed alone, wherever it
// stands (first, last, inside a run of equal sequence numbers), and a file that is not in the list removes
// nothing.
func VerifC03FileList() {
	n := 1 + verifrt.Choose("n", 4+verifrt.Tier())
	paths := []string{"p0", "p1", "p2", "p3", "p4", "p5"}
	fs := &TSSPFiles{}
	files := make([]*verifC03ListFile, n)
	for i := 0; i < n; i++ {
		f := &verifC03ListFile{seq: verifrt.Uint64("seq"), ext: uint16(verifrt.Byte("ext")), path: paths[i]}
		if i > 0 { // the list is kept sorted by (sequence, extent)
			p := files[i-1]
			verifrt.Assume(p.seq < f.seq || (p.seq == f.seq && p.ext < f.ext))
		}
		files[i] = f
		fs.files = append(fs.files, f)
	}
	t := verifrt.Choose("target", n+1)
	if t == n {
		ghost := &verifC03ListFile{seq: verifrt.Uint64("ghostSeq"), path: "ghost"}
		verifrt.Assert(fs.fileIndex(ghost) == -1, "a file that is not in the list was found")
		fs.deleteFile(ghost)
		verifrt.Assert(fs.Len() == n, "deleting a file that is not in the list removed something")
		verifrt.Reach("ghost")
	} else {
		verifrt.Assert(fs.fileIndex(files[t]) == t, "a file of the list is not found at its position")
		fs.deleteFile(files[t])
		verifrt.Assert(fs.Len() == n-1, "the replaced file stayed in the live list")
		k := 0
		for i := 0; i < n; i++ {
			if i == t {
				continue
			}
			verifrt.Assert(fs.files[k].Path() == paths[i], "deleting one file disturbed the others")
			k++
		}
	}
	verifrt.Reach("end")
}
