//go:build verif

package meta

import (
	"time"

	"github.com/openGemini/openGemini/lib/verifrt"
)

func VerifSelfTimeTruncate() {
	s := verifrt.Int64("s")
	n := verifrt.Int64("n")
	verifrt.Assume(s >= 0 && s < 3600)
	verifrt.Assume(n >= 0 && n < 1000000000)
	t := time.Unix(s, n)
	tr := t.Truncate(time.Hour)
	verifrt.Assert(tr.Unix() == 0, "truncate to the hour of an instant in the first hour is not the epoch")
	verifrt.Assert(tr.Nanosecond() == 0, "truncate left nanoseconds")
	verifrt.Assert(!t.Before(tr), "t before its truncation")
	e := tr.Add(time.Hour)
	verifrt.Assert(t.Before(e), "t not before truncation+1h")
	verifrt.Assert(e.Unix() == 3600, "end is not 3600")
	verifrt.Reach("end")
}

func VerifSelfTimeTruncate2() {
	s := verifrt.Int64("s")
	n := verifrt.Int64("n")
	verifrt.Assume(s >= -(1<<33) && s <= 1<<33)
	verifrt.Assume(n >= 0 && n < 1000000000)
	t := time.Unix(s, n)
	verifrt.Observe("t", t.Unix())
	tr := t.Truncate(time.Hour)
	verifrt.Observe("tr", tr.Unix())
	u := tr.UTC()
	verifrt.Observe("u", u.Unix())
	e := tr.Add(time.Hour).UTC()
	verifrt.Observe("e", e.Unix())
	verifrt.Observe("tns", t.Nanosecond())
	verifrt.Observe("ens", e.Nanosecond())
	verifrt.Observe("uns", u.Nanosecond())
	verifrt.Assert(!t.Before(u), "t before its truncation")
	verifrt.Observe("before", t.Before(e))
	verifrt.Assert(t.Before(e), "t not before truncation+1h")
	verifrt.Assert(e.Unix()-u.Unix() == 3600, "span is not one hour")
	verifrt.Reach("end")
}
