//go:build verif

package influxql

import (
	"io"
	"strings"

	"github.com/openGemini/openGemini/lib/verifrt"
)

type verifSelfR struct {
	buf          []byte
	rd           io.Reader
	r, w         int
	err          error
	lastByte     int
	lastRuneSize int
}

func (b *verifSelfR) reset(buf []byte, r io.Reader) {
	*b = verifSelfR{buf: buf, rd: r, lastByte: -1, lastRuneSize: -1}
}

func VerifSelfStructs() {
	r := new(verifSelfR)
	r.reset(make([]byte, max(4, 16)), strings.NewReader("xy"))
	verifrt.Observe("len", len(r.buf))
	verifrt.Observe("lastByte", r.lastByte)
	verifrt.Observe("rdnil", r.rd == nil)
	verifrt.Observe("max", max(4, 16))
	verifrt.Observe("min", min(4, 16))
}
