//go:build verif

package influxql

import (
	"bufio"
	"io"
	"strings"

	"github.com/openGemini/openGemini/lib/verifrt"
)

func VerifSelfScan() {
	q := QuoteIdent("c")
	verifrt.Observe("q", q)
	sc := NewScanner(strings.NewReader(q))
	tok, _, lit := sc.Scan()
	verifrt.Observe("tok", int(tok))
	verifrt.Observe("lit", lit)
	r := strings.NewReader("xy")
	ch, n, err := r.ReadRune()
	verifrt.Observe("ch", int(ch))
	verifrt.Observe("n", n)
	verifrt.Observe("errnil", err == nil)
	br := bufio.NewReader(strings.NewReader("xy"))
	ch2, n2, err2 := br.ReadRune()
	verifrt.Observe("ch2", int(ch2))
	verifrt.Observe("n2", n2)
	verifrt.Observe("err2nil", err2 == nil)
	bb := make([]byte, 16)
	nn, e4 := strings.NewReader("xy").Read(bb)
	verifrt.Observe("nn", nn)
	verifrt.Observe("e4nil", e4 == nil)
	verifrt.Observe("bb0", int(bb[0]))
	nn2, e5 := strings.NewReader("xy").Read(bb[3:])
	verifrt.Observe("nn2", nn2)
	verifrt.Observe("e5nil", e5 == nil)
	var ior io.Reader = strings.NewReader("xy")
	nn3, _ := ior.Read(bb[0:])
	verifrt.Observe("nn3", nn3)
	br2 := bufio.NewReaderSize(strings.NewReader("xy"), 16)
	verifrt.Observe("buffered0", br2.Buffered())
	pk, e6 := br2.Peek(1)
	verifrt.Observe("peeklen", len(pk))
	verifrt.Observe("e6nil", e6 == nil)
	verifrt.Observe("buffered1", br2.Buffered())
	rd := &reader{r: bufio.NewReader(strings.NewReader("xy"))}
	ch3, _ := rd.read()
	verifrt.Observe("ch3", int(ch3))
}
