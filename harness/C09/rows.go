//go:build verif

package immutable

import (
	"github.com/openGemini/openGemini/lib/record"
	"github.com/openGemini/openGemini/lib/util"
	"github.com/openGemini/openGemini/lib/verifrt"
)

// VerifC09FirstLastRows: when a query range cuts through a stored segment the statistics cannot be used and
// first()/last() are answered from the rows: the row picked must be the first / last non-null row whose
// time lies inside [min, max] - for ascending segments and for segments read in descending order - and
// "none" exactly when no such row exists (which is what `select x` over the same range would return).
func VerifC09FirstLastRows() {
	n := 1 + verifrt.Choose("n", 3+verifrt.Tier())
	asc := verifrt.Bool("ascending")
	times, nulls := make([]int64, n), make([]bool, n)
	var timeCol, callCol record.ColVal
	for i := 0; i < n; i++ {
		times[i], nulls[i] = verifrt.Int64("t"), verifrt.Bool("null")
		if i > 0 {
			if asc {
				verifrt.Assume(times[i] > times[i-1])
			} else {
				verifrt.Assume(times[i] < times[i-1])
			}
		}
		timeCol.AppendInteger(times[i])
		if nulls[i] {
			callCol.AppendIntegerNull()
		} else {
			callCol.AppendInteger(int64(i))
		}
	}
	tr := util.TimeRange{Min: verifrt.Int64("min"), Max: verifrt.Int64("max")}
	verifrt.Assume(tr.Min <= tr.Max)
	first, last := -1, -1
	for i := 0; i < n; i++ {
		if !nulls[i] && times[i] >= tr.Min && times[i] <= tr.Max {
			if first < 0 {
				first = i
			}
			last = i
		}
	}
	gotFirst := readFirstRowIndex(&timeCol, &callCol, tr, asc)
	gotLast := readLastRowIndex(&timeCol, &callCol, tr, asc)
	if first < 0 {
		verifrt.Assert(gotFirst >= n && gotLast >= n, "a row was picked although no non-null row lies in the range")
		verifrt.Reach("none")
	} else {
		verifrt.Assert(gotFirst == first, "first() does not pick the first non-null row inside the range")
		verifrt.Assert(gotLast == last, "last() does not pick the last non-null row inside the range")
	}
	verifrt.Reach("end")
}
