//go:build verif

package immutable

import (
	"github.com/openGemini/openGemini/lib/record"
	"github.com/openGemini/openGemini/lib/verifrt"
)

type verifC09Col struct {
	vals  []int64
	null  []bool
	times []int64
	col   *record.ColVal
}

// verifC09IntCol builds a column of n rows through the real ColVal appenders; values, null flags and
// (ascending) times are arbitrary.
func verifC09IntCol(name string, n int, t0 int64) *verifC09Col {
	c := &verifC09Col{col: &record.ColVal{}}
	prev := t0
	for i := 0; i < n; i++ {
		v := verifrt.Int64(name + "v")
		isNull := verifrt.Bool(name + "null")
		dt := verifrt.Int64(name + "dt")
		verifrt.Assume(dt > 0 && dt < 1<<40)
		prev += dt
		c.vals = append(c.vals, v)
		c.null = append(c.null, isNull)
		c.times = append(c.times, prev)
		if isNull {
			c.col.AppendIntegerNull()
		} else {
			c.col.AppendInteger(v)
		}
	}
	return c
}

// verifC09CheckInt asserts that agg describes exactly the non-null rows of the given columns.
func verifC09CheckInt(agg *IntegerPreAgg, cols ...*verifC09Col) {
	cnt := int64(0)
	var sum int64
	for _, c := range cols {
		for i := range c.vals {
			if !c.null[i] {
				cnt++
				sum += c.vals[i]
			}
		}
	}
	verifrt.Assert(agg.count() == cnt, "count differs from number of non-null rows")
	s, _ := agg.sum().(int64)
	verifrt.Assert(s == sum, "sum differs from sum over the rows")
	if cnt == 0 {
		return
	}
	mnI, mnT := agg.min()
	mxI, mxT := agg.max()
	mn, _ := mnI.(int64)
	mx, _ := mxI.(int64)
	minAttained, maxAttained := false, false
	for _, c := range cols {
		for i := range c.vals {
			if c.null[i] {
				continue
			}
			verifrt.Assert(mn <= c.vals[i], "min larger than a stored value")
			verifrt.Assert(mx >= c.vals[i], "max smaller than a stored value")
			if c.vals[i] == mn && c.times[i] == mnT {
				minAttained = true
			}
			if c.vals[i] == mx && c.times[i] == mxT {
				maxAttained = true
			}
		}
	}
	verifrt.Assert(minAttained, "min value/time pair is not a stored row")
	verifrt.Assert(maxAttained, "max value/time pair is not a stored row")
}

// VerifC09IntBuild: statistics built from a column equal the direct computation over its rows.
func VerifC09IntBuild() {
	n := verifrt.Choose("n", 3+verifrt.Tier()) + 1
	c := verifC09IntCol("a", n, 0)
	agg := NewIntegerPreAgg()
	agg.addValues(c.col, c.times)
	verifC09CheckInt(agg, c)
	verifrt.Reach("end")
}

// VerifC09IntMerge: merging the statistics of two segments equals the statistics of their concatenation.
func VerifC09IntMerge() {
	na := verifrt.Choose("na", 2) + 1
	nb := verifrt.Choose("nb", 2) + 1
	a := verifC09IntCol("a", na, 0)
	b := verifC09IntCol("b", nb, a.times[na-1])
	ma, mb := NewIntegerPreAgg(), NewIntegerPreAgg()
	ma.addValues(a.col, a.times)
	mb.addValues(b.col, b.times)
	verifrt.Assume(ma.count() > 0 && mb.count() > 0)
	ma.merge(mb)
	verifC09CheckInt(ma, a, b)
	verifrt.Reach("end")
}

// VerifC09FloatBuild: float statistics vs direct computation (NaN-free columns; min/max by IEEE order,
// sum left to right as the row path computes it).
func VerifC09FloatBuild() {
	n := verifrt.Choose("n", 2+verifrt.Tier()) + 1
	col := &record.ColVal{}
	var vals []float64
	var null []bool
	var times []int64
	prev := int64(0)
	for i := 0; i < n; i++ {
		v := verifrt.Float64("v")
		verifrt.Assume(v == v) // no NaN
		isNull := verifrt.Bool("null")
		dt := verifrt.Int64("dt")
		verifrt.Assume(dt > 0 && dt < 1<<40)
		prev += dt
		vals, null, times = append(vals, v), append(null, isNull), append(times, prev)
		if isNull {
			col.AppendFloatNull()
		} else {
			col.AppendFloat(v)
		}
	}
	agg := NewFloatPreAgg()
	agg.addValues(col, times)
	cnt := int64(0)
	sum := float64(0)
	for i := range vals {
		if !null[i] {
			cnt++
			sum += vals[i]
		}
	}
	verifrt.Assert(agg.count() == cnt, "count differs from number of non-null rows")
	if cnt > 0 {
		s, _ := agg.sum().(float64)
		verifrt.Assert(s == sum || (s != s && sum != sum), "float sum differs from the left-to-right sum")
		mnI, mnT := agg.min()
		mxI, mxT := agg.max()
		mn, _ := mnI.(float64)
		mx, _ := mxI.(float64)
		minAttained, maxAttained := false, false
		for i := range vals {
			if null[i] {
				continue
			}
			verifrt.Assert(mn <= vals[i], "min larger than a stored value")
			verifrt.Assert(mx >= vals[i], "max smaller than a stored value")
			if vals[i] == mn && times[i] == mnT {
				minAttained = true
			}
			if vals[i] == mx && times[i] == mxT {
				maxAttained = true
			}
		}
		verifrt.Assert(minAttained, "min value/time pair is not a stored row")
		verifrt.Assert(maxAttained, "max value/time pair is not a stored row")
	}
	verifrt.Reach("end")
}

// VerifC09BoolBuild: boolean statistics vs direct computation.
func VerifC09BoolBuild() {
	n := verifrt.Choose("n", 3+verifrt.Tier()) + 1
	col := &record.ColVal{}
	var vals, null []bool
	var times []int64
	prev := int64(0)
	for i := 0; i < n; i++ {
		v := verifrt.Bool("v")
		isNull := verifrt.Bool("null")
		dt := verifrt.Int64("dt")
		verifrt.Assume(dt > 0 && dt < 1<<40)
		prev += dt
		vals, null, times = append(vals, v), append(null, isNull), append(times, prev)
		if isNull {
			col.AppendBooleanNull()
		} else {
			col.AppendBoolean(v)
		}
	}
	agg := NewBooleanPreAgg()
	agg.reset()
	agg.addValues(col, times)
	cnt := int64(0)
	for i := range vals {
		if !null[i] {
			cnt++
		}
	}
	verifrt.Assert(agg.count() == cnt, "count differs from number of non-null rows")
	if cnt > 0 {
		mnI, mnT := agg.min()
		mxI, mxT := agg.max()
		mn, _ := mnI.(bool)
		mx, _ := mxI.(bool)
		minAttained, maxAttained := false, false
		for i := range vals {
			if null[i] {
				continue
			}
			verifrt.Assert(!mn || vals[i], "min larger than a stored value")
			verifrt.Assert(mx || !vals[i], "max smaller than a stored value")
			if vals[i] == mn && times[i] == mnT {
				minAttained = true
			}
			if vals[i] == mx && times[i] == mxT {
				maxAttained = true
			}
		}
		verifrt.Assert(minAttained, "min value/time pair is not a stored row")
		verifrt.Assert(maxAttained, "max value/time pair is not a stored row")
	}
	verifrt.Reach("end")
}

// VerifC09CompactMerge: streaming compaction does not recompute a column's statistics from the rows, it
// merges the statistics of the source files. For a series that lives in two source files, where the field
// may be missing from the first (added later), the merged statistics must describe exactly the rows of the
// files that have the field - whatever the compactor's pooled accumulator still holds from the previous
// column or series.
func VerifC09CompactMerge() {
	firstHas := verifrt.Bool("firstHas")
	a := verifC09IntCol("a", 1+verifrt.Choose("na", 1+verifrt.Tier()), 0)
	b := verifC09IntCol("b", 1+verifrt.Choose("nb", 2), a.times[len(a.times)-1])
	ma, mb := NewIntegerPreAgg(), NewIntegerPreAgg()
	ma.addValues(a.col, a.times)
	mb.addValues(b.col, b.times)
	verifrt.Assume(ma.count() > 0 && mb.count() > 0) // a column present in a file has at least one value there
	ctx := NewReadContext(true)
	// the accumulator was used for an earlier column: arbitrary leftovers
	stale := verifC09IntCol("stale", 1, 0)
	ctx.preAggBuilders.IntegerBuilder().addValues(stale.col, stale.times)
	mkItr := func(m *IntegerPreAgg) *StreamIterator {
		return &StreamIterator{FileIterator: &FileIterator{curtChunkMeta: &ChunkMeta{colMeta: []ColumnMeta{{name: "v", ty: 1, preAgg: m.marshal(nil)}}}}}
	}
	c := &StreamIterators{Conf: NewTsStoreConfig(), ctx: ctx, colBuilder: NewColumnBuilder()}
	c.colBuilder.intPreAggBuilder = NewIntegerPreAgg()
	c.chunkItrs = []*StreamIterator{mkItr(ma), mkItr(mb)}
	fieldIndex := []int{0, 0}
	if !firstHas {
		fieldIndex[0] = -1
		verifrt.Reach("added-later")
	}
	cm := &ColumnMeta{name: "v", ty: 1}
	err := c.mergeIntegerPreAgg(cm, &record.Field{Name: "v", Type: 1}, fieldIndex)
	verifrt.Assert(err == nil, "merging stored statistics failed")
	got := NewIntegerPreAgg()
	_, err = got.unmarshal(cm.preAgg)
	verifrt.Assert(err == nil, "merged statistics do not decode")
	if firstHas {
		verifC09CheckInt(got, a, b)
	} else {
		verifC09CheckInt(got, b)
	}
	verifrt.Reach("end")
}
