//go:build verif

package meta

import (
	"github.com/gogo/protobuf/proto"
	"github.com/openGemini/openGemini/lib/util/lifted/influx/influxql"
	proto2 "github.com/openGemini/openGemini/lib/util/lifted/influx/meta/proto"
	"github.com/openGemini/openGemini/lib/util/lifted/vm/protoparser/influx"
	"github.com/openGemini/openGemini/lib/verifrt"
)

func verifC13Catalogue() *Data {
	data := &Data{PtNumPerNode: 1}
	data.CreateDataNode("127.0.0.1:8086", "127.0.0.1:8188", "", "")
	err := data.CreateDatabase("db", nil, nil, false, 1, nil)
	verifrt.Assert(err == nil, "setup: CreateDatabase failed")
	rpi := &RetentionPolicyInfo{Name: "rp", ReplicaN: 1, ShardGroupDuration: 3600e9, IndexGroupDuration: 7200e9}
	err = data.CreateRetentionPolicy("db", rpi, true)
	verifrt.Assert(err == nil, "setup: CreateRetentionPolicy failed")
	return data
}

func verifC13Create(data *Data, name string) (string, error) {
	err := data.CreateMeasurement("db", "rp", name, &proto2.ShardKeyInfo{ShardKey: []string{"h"}, Type: proto.String(influxql.HASH)}, 0, nil, 0, nil, nil, nil)
	if err != nil {
		return "", err
	}
	m, err := data.Measurement("db", "rp", name)
	if err != nil {
		return "", err
	}
	return m.Name, nil
}

// VerifC13DropRecreate: a sequence of create / mark-delete / drop / re-create steps on two measurement
// names (arbitrary bytes). After a drop the logical name resolves to nothing; a re-created measurement
// never gets a physical name that was handed out before (data stored under the old physical name
// cannot reappear); the other measurement is untouched throughout.
func VerifC13DropRecreate() {
	data := verifC13Catalogue()
	n := 1 + verifrt.Choose("len", 2+verifrt.Tier())
	a := verifrt.String("a", n)
	b := verifrt.String("b", n)
	verifrt.Assume(a != b)
	// start the version counter of a anywhere, as after many earlier re-creations
	if verifrt.Bool("seeded") {
		v := uint32(verifrt.Uint16("ver"))
		rp, _ := data.RetentionPolicy("db", "rp")
		rp.MstVersions = map[string]MeasurementVer{a: {NameWithVersion: influx.GetNameWithVersion(a, v), Version: v}}
	}
	pb, err := verifC13Create(data, b)
	verifrt.Assert(err == nil, "create of the second measurement failed")
	var handed []string
	steps := 2 + verifrt.Tier()
	for i := 0; i < steps; i++ {
		pa, err := verifC13Create(data, a)
		verifrt.Assert(err == nil, "create failed")
		verifrt.Assert(influx.GetOriginMstName(pa) == a, "physical name does not map back to the logical name")
		verifrt.Assert(pa != pb, "two measurements share a physical name")
		for _, old := range handed {
			verifrt.Assert(old != pa, "a re-created measurement got a physical name that was handed out before")
		}
		handed = append(handed, pa)
		err = data.MarkMeasurementDelete("db", "rp", a)
		verifrt.Assert(err == nil, "mark delete failed")
		_, err = data.Measurement("db", "rp", a)
		verifrt.Assert(err != nil, "a measurement marked deleted is still resolved")
		if verifrt.Bool("drop") {
			err = data.DropMeasurement("db", "rp", pa)
			verifrt.Assert(err == nil, "drop failed")
			rp, _ := data.RetentionPolicy("db", "rp")
			verifrt.Assert(rp.Measurements[pa] == nil, "dropped measurement still in the catalogue")
			_, err = data.Measurement("db", "rp", a)
			verifrt.Assert(err != nil, "a dropped measurement is still resolved")
			verifrt.Reach("dropped")
		}
		mb, err := data.Measurement("db", "rp", b)
		verifrt.Assert(err == nil && mb.Name == pb && !mb.MarkDeleted, "dropping one measurement touched another")
	}
	verifrt.Reach("end")
}

// VerifC13NameVersion: physical names are injective in (logical name, version) and map back to the logical name.
func VerifC13NameVersion() {
	n1 := verifrt.Choose("len1", 4)
	n2 := verifrt.Choose("len2", 4)
	a, b := verifrt.String("a", n1), verifrt.String("b", n2)
	va, vb := uint32(verifrt.Uint16("va")), uint32(verifrt.Uint16("vb"))
	pa, pb := influx.GetNameWithVersion(a, va), influx.GetNameWithVersion(b, vb)
	if n1 > 0 {
		verifrt.Assert(influx.GetOriginMstName(pa) == a, "physical name does not map back to the logical name")
	}
	if a != b || va != vb {
		verifrt.Assert(pa != pb, "two (name, version) pairs share a physical name")
	}
	verifrt.Reach("end")
}
