//go:build verif

package tsi

import (
	"reflect"

	"github.com/agiledragon/gomonkey/v2"
	"github.com/openGemini/openGemini/lib/util/lifted/vm/uint64set"
	"github.com/VictoriaMetrics/VictoriaMetrics/lib/encoding"
	"github.com/openGemini/openGemini/lib/util/lifted/vm/mergeset"
	"github.com/openGemini/openGemini/lib/verifrt"
)

// The mergeset table of the delete index is replaced by a recorder: AddItems stores the bytes of every
// item as they are at the time of the call (which is when the real table copies them into its block).

//verif:stub (*github.com/openGemini/openGemini/lib/util/lifted/vm/mergeset.Table).AddItems = verifC13AddItems

var verifC13Items [][]byte

func verifC13AddItems(tb *mergeset.Table, items [][]byte) error {
	for _, it := range items {
		verifC13Items = append(verifC13Items, append([]byte(nil), it...))
	}
	return nil
}

// VerifNativeSetup installs the recorder natively as well.
func VerifNativeSetup() {
	gomonkey.ApplyMethod(reflect.TypeOf(&mergeset.Table{}), "AddItems", verifC13AddItems)
}

// VerifC13DeletedSetPersisted: DROP SERIES records the ids it hides twice - in the in-memory set used
// until the next restart, and as items of the delete index from which LoadDeletedTSIDs rebuilds the set
// after a restart. For every batch of dropped ids both must hold exactly the dropped ids, so that a
// dropped series does not reappear after a restart.
func VerifC13DeletedSetPersisted() {
	verifC13Items = nil
	n := 1 + verifrt.Choose("n", 3+verifrt.Tier())
	tsids := make([]uint64, n)
	for i := range tsids {
		tsids[i] = verifrt.Uint64("tsid")
	}
	idx := &MergeSetIndex{tb: &mergeset.Table{}}
	idx.deletedTSIDs.Store(&uint64set.Set{})
	verifrt.Assert(idx.WriteDeleteTsids(tsids) == nil, "recording the dropped ids failed")
	mem := idx.deletedTSIDs.Load().(*uint64set.Set)
	// what a restart reads back (indexSearch.getAllTSID decodes every item with UnmarshalUint64)
	verifrt.Assert(len(verifC13Items) == n, "the delete index does not get one item per dropped id")
	for _, id := range tsids {
		verifrt.Assert(mem.Has(id), "a dropped id is missing from the in-memory deleted set")
		found := false
		for _, it := range verifC13Items {
			if len(it) == 8 && encoding.UnmarshalUint64(it) == id {
				found = true
			}
		}
		verifrt.Assert(found, "a dropped id is missing from the items written to the delete index: the series reappears after a restart")
	}
	for _, it := range verifC13Items {
		verifrt.Assert(len(it) == 8, "an item of the delete index is not one encoded id")
	}
	verifrt.Reach("end")
}
