//go:build verif

package raftlog

import (
	"errors"
	"io"
	"io/fs"
	"math"
	"os"
	"sort"
	"strings"
	"time"

	"github.com/openGemini/openGemini/lib/config"
	"github.com/openGemini/openGemini/lib/fileops"
	"github.com/openGemini/openGemini/lib/request"
	"github.com/openGemini/openGemini/lib/verifrt"
	"go.etcd.io/etcd/raft/v3"
	"go.etcd.io/etcd/raft/v3/raftpb"
)

// ---------------------------------------------------------------------------------------------
// In-memory model of the file layer, used during symbolic execution only (natively the harness runs
// on a real temporary directory). It keeps exactly what the log store relies on: byte-addressable
// files that grow zero-filled on writes past the end, positional reads that fail short at the end
// of the file, a directory listing sorted by name, removal by name. A "crash" is modelled as losing
// the process but no written byte (the store writes through the file descriptor without buffering).

//verif:skipinit github.com/openGemini/openGemini/lib/config
//verif:stub github.com/openGemini/openGemini/lib/fileops.OpenFile = verifOpenFile
//verif:stub github.com/openGemini/openGemini/lib/fileops.ReadDir = verifReadDir
//verif:stub github.com/openGemini/openGemini/lib/fileops.MkdirAll = verifMkdirAll
//verif:stub github.com/openGemini/openGemini/lib/fileops.Remove = verifRemove

type verifNode struct {
	data []byte
}

var verifFiles map[string]*verifNode
var verifNames []string // creation order, for deterministic listings

type verifFile struct {
	name string
	n    *verifNode
	pos  int64
}

func (f *verifFile) Close() error { return nil }
func (f *verifFile) Read(p []byte) (int, error) {
	if f.pos >= int64(len(f.n.data)) {
		return 0, io.EOF
	}
	n := copy(p, f.n.data[f.pos:])
	f.pos += int64(n)
	return n, nil
}
func (f *verifFile) Seek(offset int64, whence int) (int64, error) {
	switch whence {
	case io.SeekStart:
		f.pos = offset
	case io.SeekCurrent:
		f.pos += offset
	default:
		f.pos = int64(len(f.n.data)) + offset
	}
	return f.pos, nil
}
func (f *verifFile) Write(p []byte) (int, error) {
	end := f.pos + int64(len(p))
	if end > int64(len(f.n.data)) {
		f.n.data = append(f.n.data, make([]byte, end-int64(len(f.n.data)))...)
	}
	copy(f.n.data[f.pos:end], p)
	f.pos = end
	return len(p), nil
}
func (f *verifFile) ReadAt(p []byte, off int64) (int, error) {
	if off >= int64(len(f.n.data)) {
		return 0, io.EOF
	}
	n := copy(p, f.n.data[off:])
	if n < len(p) {
		return n, io.EOF
	}
	return n, nil
}
func (f *verifFile) Name() string { return f.name }
func (f *verifFile) Truncate(size int64) error {
	if size <= int64(len(f.n.data)) {
		f.n.data = f.n.data[:size]
	} else {
		f.n.data = append(f.n.data, make([]byte, size-int64(len(f.n.data)))...)
	}
	return nil
}
func (f *verifFile) Sync() error { return nil }
func (f *verifFile) Stat() (os.FileInfo, error) {
	return verifInfo{name: f.name, size: int64(len(f.n.data))}, nil
}
func (f *verifFile) SyncUpdateLength() error { return nil }
func (f *verifFile) Fd() uintptr             { return 0 }
func (f *verifFile) Size() (int64, error)    { return int64(len(f.n.data)), nil }
func (f *verifFile) StreamReadBatch([]int64, []int64, int64, chan *request.StreamReader, int, bool) {
}

type verifInfo struct {
	name string
	size int64
}

func (i verifInfo) Name() string {
	if k := strings.LastIndexByte(i.name, '/'); k >= 0 {
		return i.name[k+1:]
	}
	return i.name
}
func (i verifInfo) Size() int64        { return i.size }
func (i verifInfo) Mode() fs.FileMode  { return 0600 }
func (i verifInfo) ModTime() time.Time { return time.Time{} }
func (i verifInfo) IsDir() bool        { return false }
func (i verifInfo) Sys() any           { return nil }

func verifOpenFile(name string, flag int, perm os.FileMode, opt ...fileops.FSOption) (fileops.File, error) {
	if verifFiles == nil {
		verifFiles = map[string]*verifNode{}
	}
	n := verifFiles[name]
	if n == nil {
		if flag&os.O_CREATE == 0 {
			return nil, os.ErrNotExist
		}
		n = &verifNode{}
		verifFiles[name] = n
		verifNames = append(verifNames, name)
	}
	return &verifFile{name: name, n: n}, nil
}

func verifReadDir(dirname string) ([]fs.FileInfo, error) {
	var names []string
	for _, nm := range verifNames {
		if verifFiles[nm] != nil && strings.HasPrefix(nm, dirname+"/") {
			names = append(names, nm)
		}
	}
	sort.Strings(names)
	var out []fs.FileInfo
	for _, nm := range names {
		out = append(out, verifInfo{name: nm, size: int64(len(verifFiles[nm].data))})
	}
	return out, nil
}

func verifMkdirAll(path string, perm os.FileMode, opt ...fileops.FSOption) error { return nil }

func verifRemove(name string, opt ...fileops.FSOption) error {
	if verifFiles[name] == nil {
		return os.ErrNotExist
	}
	delete(verifFiles, name)
	return nil
}

// ---------------------------------------------------------------------------------------------

var verifTmpDirs []string

func verifDir() string {
	if verifrt.Symbolic() {
		return "/v"
	}
	d, err := os.MkdirTemp("", "verif-c17-")
	if err != nil {
		panic(err)
	}
	verifTmpDirs = append(verifTmpDirs, d)
	return d
}

func verifCleanup() {
	for _, d := range verifTmpDirs {
		os.RemoveAll(d)
	}
	verifTmpDirs = nil
}

const verifBig = 15 << 20 // two such payloads fill a 32 MiB entry file: the third one rolls it

// verifPayload: big selects a 15 MiB payload (zero bytes except the first two), otherwise no payload or 2 arbitrary bytes.
func verifPayload(big bool) []byte {
	if big {
		b := make([]byte, verifBig)
		b[0], b[1] = verifrt.Byte("d"), verifrt.Byte("d")
		return b
	}
	n := 2 * verifrt.Choose("dlen", 2)
	if n == 0 {
		return nil // raft's own empty entries carry a nil payload; nil and empty are not distinguished
	}
	return verifrt.Bytes("d", n)
}

// verifPlainPayload: a concrete 3-byte payload, or the 15 MiB one.
func verifPlainPayload(big bool) []byte {
	if big {
		b := make([]byte, verifBig)
		b[0], b[1] = 7, 9
		return b
	}
	return []byte{1, 2, 3}
}

func verifSameData(got, want []byte) bool {
	if len(got) != len(want) {
		return false
	}
	if len(want) > 8 {
		return got[0] == want[0] && got[1] == want[1] && got[len(got)-1] == want[len(want)-1]
	}
	for i := range want {
		if got[i] != want[i] {
			return false
		}
	}
	return true
}

func verifSameEntry(got, want raftpb.Entry) bool {
	return got.Index == want.Index && got.Term == want.Term && got.Type == want.Type && verifSameData(got.Data, want.Data)
}

// verifLimit is raft's limitSize: at least one entry, then as many as fit into maxSize.
func verifLimit(ents []raftpb.Entry, maxSize uint64) []raftpb.Entry {
	if len(ents) == 0 {
		return ents
	}
	size := uint64(ents[0].Size())
	limit := 1
	for ; limit < len(ents); limit++ {
		size += uint64(ents[limit].Size())
		if size > maxSize {
			break
		}
	}
	return ents[:limit]
}

type verifC17 struct {
	dir   string
	rds   *RaftDiskStorage
	model []raftpb.Entry // model[i] has Index i+1 (the model keeps compacted entries; the store may drop them)
	hs    raftpb.HardState
	nsave uint64
	smallTerms bool
	plain      bool
	sizeQuery  bool
	first      uint64 // smallest FirstIndex the store may report (entries below it were dropped with their file)
	snapIndex  uint64
	snapTerm   uint64
	compacted  uint64 // largest index passed to DeleteBefore
	hsSet bool
}

func (v *verifC17) open() {
	rds, err := Init(v.dir, 0)
	verifrt.Assert(err == nil, "Init failed on a directory the store itself wrote")
	v.rds = rds
}

// save appends a batch the way raft does: contiguous indexes, starting anywhere in [1, last+1].
func (v *verifC17) save(maxBatch int, allowBig bool) {
	last := len(v.model)
	lo := int(v.snapIndex) // entries up to the snapshot index are committed: raft never overwrites them
	start := lo + 1 + verifrt.Choose("at", last+1-lo)
	k := 1 + verifrt.Choose("k", maxBatch)
	v.saveAt(start, k, allowBig)
}

func (v *verifC17) saveAt(start, k int, allowBig bool) {
	batch := make([]raftpb.Entry, k)
	for j := range batch {
		typ := verifrt.Byte("type")
		verifrt.Assume(typ < 3)
		var term uint64
		if v.plain && len(v.model) == 0 {
			term = uint64(5 + 295*(j%2)) // opening batch: terms 5, 300, 5
		} else if v.smallTerms {
			term = []uint64{5, 300}[verifrt.Choose("term", 2)] // concrete sizes for the size-limit queries (1- and 2-byte varints)
		} else {
			term = verifrt.Uint64("term")
		}
		if v.plain { // compaction harnesses: only term and size vary; the opening batch is big, big, any
			big := allowBig && (len(v.model) == 0 && j < 2 || verifrt.Bool("big"))
			batch[j] = raftpb.Entry{Index: uint64(start + j), Term: term, Data: verifPlainPayload(big)}
			continue
		}
		batch[j] = raftpb.Entry{Index: uint64(start + j), Term: term, Type: raftpb.EntryType(typ), Data: verifPayload(allowBig && verifrt.Bool("big"))}
	}
	v.nsave++
	hs := raftpb.HardState{Term: 300 + v.nsave, Vote: 1 + v.nsave%2, Commit: uint64(start)} // concrete, different on every save
	err := v.rds.Save(&hs, batch, nil)
	verifrt.Assert(err == nil, "Save failed")
	if !raft.IsEmptyHardState(hs) {
		v.hs, v.hsSet = hs, true
	}
	v.model = append(v.model[:start-1:start-1], batch...)
}

// snapshot: what the raft node does when it compacts - CreateSnapshot(i) for an index inside the log, then
// DeleteBefore(i), which drops whole entry files that lie completely below i.
func (v *verifC17) snapshot() {
	last := len(v.model)
	lo := int(v.snapIndex)
	if last == 0 || lo >= last {
		return
	}
	i := uint64(lo + 1 + verifrt.Choose("snapAt", last-lo))
	err := v.rds.CreateSnapshot(i, &raftpb.ConfState{Voters: []uint64{1}}, []byte("snapshot"))
	verifrt.Assert(err == nil, "CreateSnapshot of a stored index failed")
	v.snapIndex, v.snapTerm = i, v.model[i-1].Term
	err = v.rds.DeleteBefore(i)
	verifrt.Assert(err == nil, "DeleteBefore failed")
	v.compacted = i
	verifrt.Reach("snapshot")
}

func (v *verifC17) check() {
	last := uint64(len(v.model))
	fi, err := v.rds.FirstIndex()
	verifrt.Assert(err == nil, "FirstIndex failed")
	// nothing at or above the compaction index may be dropped; without compaction nothing at all
	verifrt.Assert(fi >= 1 && (fi == 1 || fi <= v.compacted), "FirstIndex moved past entries that were never compacted")
	if fi > 1 {
		verifrt.Reach("dropped-prefix")
	}
	li, err := v.rds.LastIndex()
	verifrt.Assert(err == nil && li == last, "LastIndex differs from the saved sequence")
	for i := uint64(1); i < fi; i++ {
		t, err := v.rds.Term(i)
		if i == v.snapIndex {
			verifrt.Assert(err == nil && t == v.snapTerm, "Term of the snapshot index is not the snapshot term")
		} else {
			verifrt.Assert(errors.Is(err, raft.ErrCompacted), "Term of a compacted index is not ErrCompacted")
		}
		_, err = v.rds.Entries(i, i+1, math.MaxUint64)
		verifrt.Assert(errors.Is(err, raft.ErrCompacted), "Entries of a compacted index is not ErrCompacted")
	}
	if v.snapIndex > 0 {
		snap, err := v.rds.Snapshot()
		verifrt.Assert(err == nil && snap.Metadata.Index == v.snapIndex && snap.Metadata.Term == v.snapTerm, "the saved snapshot is not returned unchanged")
	}
	for i := fi; i <= last; i++ {
		t, err := v.rds.Term(i)
		verifrt.Assert(err == nil, "Term of a stored index failed")
		verifrt.Assert(t == v.model[i-1].Term, "Term differs from the saved sequence")
		ents, err := v.rds.Entries(i, i+1, math.MaxUint64)
		verifrt.Assert(err == nil, "Entries of a stored index failed")
		verifrt.Assert(len(ents) == 1, "Entries(i,i+1) does not return exactly one entry")
		verifrt.Assert(verifSameEntry(ents[0], v.model[i-1]), "entry differs from the saved sequence")
	}
	if last > 0 {
		_, err = v.rds.Term(last + 1)
		verifrt.Assert(errors.Is(err, raft.ErrUnavailable), "Term beyond the end is not ErrUnavailable")
		_, err = v.rds.Entries(fi, last+2, math.MaxUint64)
		verifrt.Assert(errors.Is(err, raft.ErrUnavailable), "Entries beyond the end is not ErrUnavailable")
		// range queries from every lower bound; with sizeQuery the size limit is arbitrary
		for lo := fi; lo <= last; lo++ {
			maxSize := uint64(math.MaxUint64)
			if v.sizeQuery {
				maxSize = uint64(verifrt.Uint16("maxSize"))
			}
			ents, err := v.rds.Entries(lo, last+1, maxSize)
			verifrt.Assert(err == nil, "range query failed")
			want := verifLimit(v.model[lo-1:], maxSize)
			verifrt.Assert(len(ents) == len(want), "range query returns a different number of entries than the size rule dictates")
			for i := range want {
				verifrt.Assert(verifSameEntry(ents[i], want[i]), "range query entry differs from the saved sequence")
			}
		}
	}
	hs, err := v.rds.HardState()
	verifrt.Assert(err == nil, "HardState failed")
	if v.hsSet {
		verifrt.Assert(hs.Term == v.hs.Term && hs.Vote == v.hs.Vote && hs.Commit == v.hs.Commit, "hard state differs from the last one saved")
	}
}

// verifC17Run: nops operations chosen from {save, close+reopen, crash+reopen}, then every query.
func verifC17Run(nops, maxBatch int, allowBig, sizeQuery bool) { verifC17RunOps(nops, maxBatch, allowBig, sizeQuery, false) }

// withSnapshot adds the compaction step to the operations; terms are then concrete (5 or 300) because the
// snapshot record is marshalled by generated protobuf code whose buffer size depends on the term.
func verifC17RunOps(nops, maxBatch int, allowBig, sizeQuery, withSnapshot bool) {
	defer verifCleanup()
	config.EntryFileRWType = config.DefaultEntryFileRWType // the production file wrapper (FileWrapV2)
	v := &verifC17{dir: verifDir(), smallTerms: sizeQuery || withSnapshot, sizeQuery: sizeQuery, plain: withSnapshot}
	nkinds := 3
	if withSnapshot {
		nkinds = 4
	}
	v.open()
	if allowBig {
		v.saveAt(1, 3, true) // three entries, each short or 15 MiB: the third rolls the file when the first two are big
		if len(v.rds.entryLog.files) > 0 {
			verifrt.Reach("rotated")
		}
	}
	for op := 0; op < nops; op++ {
		switch verifrt.Choose("op", nkinds) {
		case 3:
			v.snapshot()
		case 0:
			v.save(maxBatch, allowBig)
		case 1:
			verifrt.Assert(v.rds.Close() == nil, "Close failed")
			v.open()
			verifrt.Reach("reopen")
		case 2:
			v.open() // the process died: nothing is closed, the directory is opened again
			verifrt.Reach("crash")
		}
	}
	v.check()
	verifrt.Reach("end")
}

// VerifC17Small: short payloads, conflicts inside the current file, reopen anywhere.
func VerifC17Small() { verifC17Run(3+verifrt.Tier(), 2, false, false) }

// VerifC17SizeLimit: two saves, then range queries with an arbitrary size limit against raft's limitSize rule.
func VerifC17SizeLimit() { verifC17Run(2, 2, false, true) }

// VerifC17Rotate: payloads large enough to roll the entry file by size, then conflicting appends into
// the current or an earlier file, close/crash and reopen anywhere.
func VerifC17Rotate() { verifC17Run(2+verifrt.Tier(), 1, true, false) }

// VerifC17Snapshot: snapshots and prefix deletion among saves and reopens (one entry file: nothing may be dropped).
func VerifC17Snapshot() { verifC17RunOps(3+verifrt.Tier(), 1, false, false, true) }

// VerifC17RotateCompact: after the entry file has rolled, a snapshot plus prefix deletion drops the old file:
// compacted indexes answer ErrCompacted, the snapshot index answers the snapshot term, everything from the
// new first index on is still what was saved - also after reopen.
func VerifC17RotateCompact() { verifC17RunOps(2+verifrt.Tier(), 1, true, false, true) }

// VerifC17SlotTableFull: the entry file's slot table (maxNumEntries slots) is filled to within two, one or
// zero free slots by one large append, optionally followed by up to two more entries (which roll the file
// when the table is full) and a reopen; the queries around the end of the log - last index, term of the
// last entries, term and entries beyond the end - answer from the saved sequence.
func VerifC17SlotTableFull() {
	defer verifCleanup()
	config.EntryFileRWType = config.DefaultEntryFileRWType
	v := &verifC17{dir: verifDir()}
	v.open()
	n := maxNumEntries - verifrt.Choose("free", 3)
	batch := make([]raftpb.Entry, n)
	for j := range batch {
		batch[j] = raftpb.Entry{Index: uint64(j + 1), Term: 7}
	}
	batch[n-1].Term = verifrt.Uint64("lastTerm")
	verifrt.Assume(batch[n-1].Term >= 7)
	hs := raftpb.HardState{Term: 301, Vote: 1, Commit: 1}
	verifrt.Assert(v.rds.Save(&hs, batch, nil) == nil, "Save failed")
	v.model = batch
	extra := verifrt.Choose("extra", 3)
	for j := 0; j < extra; j++ {
		e := raftpb.Entry{Index: uint64(len(v.model) + 1), Term: batch[n-1].Term, Data: []byte("x")}
		verifrt.Assert(v.rds.Save(&hs, []raftpb.Entry{e}, nil) == nil, "Save failed")
		v.model = append(v.model, e)
	}
	if len(v.rds.entryLog.files) > 0 {
		verifrt.Reach("rotated")
	}
	if n == maxNumEntries && extra == 0 {
		verifrt.Reach("exactly-full")
	}
	if verifrt.Bool("reopen") {
		verifrt.Assert(v.rds.Close() == nil, "Close failed")
		v.open()
	}
	last := uint64(len(v.model))
	li, err := v.rds.LastIndex()
	verifrt.Assert(err == nil && li == last, "LastIndex differs from the saved sequence")
	fi, err := v.rds.FirstIndex()
	verifrt.Assert(err == nil && fi == 1, "FirstIndex moved although nothing was compacted")
	for _, i := range []uint64{1, uint64(n) - 1, uint64(n), last} {
		t, err := v.rds.Term(i)
		verifrt.Assert(err == nil && t == v.model[i-1].Term, "Term differs from the saved sequence")
		ents, err := v.rds.Entries(i, i+1, math.MaxUint64)
		verifrt.Assert(err == nil && len(ents) == 1 && verifSameEntry(ents[0], v.model[i-1]), "entry differs from the saved sequence")
	}
	_, err = v.rds.Term(last + 1)
	verifrt.Assert(errors.Is(err, raft.ErrUnavailable), "Term beyond the end is not ErrUnavailable")
	_, err = v.rds.Entries(last, last+2, math.MaxUint64)
	verifrt.Assert(errors.Is(err, raft.ErrUnavailable), "Entries beyond the end is not ErrUnavailable")
	verifrt.Reach("end")
}
