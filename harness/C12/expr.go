//go:build verif

package influxql

import (
	"strings"

	"github.com/openGemini/openGemini/lib/verifrt"
)

var verifC12Arith = []Token{ADD, SUB, MUL, DIV}
var verifC12Cmp = []Token{EQ, NEQ, LT, LTE, GT, GTE}
var verifC12Logic = []Token{AND, OR}

func verifC12Int(v int64) Expr { return &IntegerLiteral{Val: v} }

// verifC12EvalEnv: x and y are arbitrary small integers.
func verifC12Eval(e Expr, x, y int64) interface{} {
	return Eval(e, map[string]interface{}{"x": x, "y": y})
}

// VerifC12ReduceShip: a condition as the planner holds it - a tree with explicit parenthesis nodes, containing
// constant arithmetic that planning folds (Reduce) - is shipped as text (String) and parsed again by the
// store (ParseExpr). For every choice of operators and every value of the variables, the re-parsed condition
// evaluates to what the planned condition evaluates to: folding must not lose a grouping the text needs.
func VerifC12ReduceShip() {
	x, y := verifrt.Int64("x"), verifrt.Int64("y")
	verifrt.Assume(x >= -8 && x <= 8 && y >= -8 && y <= 8)
	lop := verifC12Logic[verifrt.Choose("outer", 2)]
	iop := verifC12Logic[verifrt.Choose("inner", 2)]
	c1 := verifC12Cmp[verifrt.Choose("cmp1", 6)]
	c2 := verifC12Cmp[verifrt.Choose("cmp2", 6)]
	a1 := verifC12Arith[verifrt.Choose("arith", 3)] // ADD SUB MUL (integer division by zero is not at issue here)
	k := int64(verifrt.Choose("k", 3))
	// x c1 1  lop  ( y c2 (2 a1 3)  iop  x c1 k )      - the group holds a foldable constant and stays binary
	fold := &BinaryExpr{Op: a1, LHS: verifC12Int(2), RHS: verifC12Int(3)}
	group := &ParenExpr{Expr: &BinaryExpr{Op: iop,
		LHS: &BinaryExpr{Op: c2, LHS: &VarRef{Val: "y"}, RHS: fold},
		RHS: &BinaryExpr{Op: c1, LHS: &VarRef{Val: "x"}, RHS: verifC12Int(k)}}}
	left := &BinaryExpr{Op: c1, LHS: &VarRef{Val: "x"}, RHS: verifC12Int(1)}
	var planned Expr
	if verifrt.Bool("groupFirst") {
		planned = &BinaryExpr{Op: lop, LHS: group, RHS: left}
	} else {
		planned = &BinaryExpr{Op: lop, LHS: left, RHS: group}
	}
	want := verifC12Eval(planned, x, y)
	reduced := Reduce(planned, nil)
	verifrt.Assert(verifC12Eval(reduced, x, y) == want, "constant folding changed the value of the condition")
	text := reduced.String()
	shipped, err := ParseExpr(text)
	verifrt.Assert(err == nil, "the shipped condition does not parse")
	verifrt.Assert(verifC12Eval(shipped, x, y) == want, "the condition the store parses evaluates differently from the planned condition")
	verifrt.Reach("end")
}

var verifC12ArithText = []string{"+", "-", "*", "/", "%"}

// VerifC12ArithShip: a condition over an arithmetic expression with two operators, written with or without
// parentheses, is parsed from the statement text by the statement grammar (as the coordinator does),
// printed, and parsed again by ParseExpr (as the store does). For every pair of operators from + - * / %
// and every value of the variables, the arithmetic the store sees evaluates to what the coordinator planned:
// the two parsers agree on precedence and associativity.
func VerifC12ArithShip() {
	x, y := verifrt.Int64("x"), verifrt.Int64("y")
	verifrt.Assume(x >= -8 && x <= 8 && y >= -8 && y <= 8)
	o1 := verifC12ArithText[verifrt.Choose("op1", 5)]
	o2 := verifC12ArithText[verifrt.Choose("op2", 5)]
	var e string
	switch verifrt.Choose("shape", 4) {
	case 0:
		e = "x " + o1 + " y " + o2 + " 3"
	case 1:
		e = "(x " + o1 + " y) " + o2 + " 3"
	case 2:
		e = "x " + o1 + " (y " + o2 + " 3)"
	default:
		e = "5 " + o1 + " x " + o2 + " y"
	}
	// the generated (yacc) statement parser, driven the way the HTTP handler drives it
	yy := &YyParser{Query: Query{}}
	yy.Scanner = NewScanner(strings.NewReader("select v from m where " + e + " > 1"))
	yy.ParseTokens()
	query, err := yy.GetQuery()
	verifrt.Assert(err == nil && len(query.Statements) == 1, "setup: the statement does not parse")
	sel, ok := query.Statements[0].(*SelectStatement)
	verifrt.Assert(ok && sel.Condition != nil, "setup: not a select with a condition")
	planned, ok := sel.Condition.(*BinaryExpr)
	verifrt.Assert(ok && planned.Op == GT, "setup: the condition is not the comparison that was written")
	shipped, err := ParseExpr(sel.Condition.String())
	verifrt.Assert(err == nil, "the shipped condition does not parse")
	got, ok := shipped.(*BinaryExpr)
	verifrt.Assert(ok && got.Op == GT, "the store parses the shipped comparison as something else")
	if ok {
		verifrt.Assert(verifC12Eval(got.LHS, x, y) == verifC12Eval(planned.LHS, x, y), "the arithmetic the store parses evaluates differently from the planned arithmetic")
		verifrt.Assert(verifC12Eval(got.RHS, x, y) == verifC12Eval(planned.RHS, x, y), "the comparison operand the store parses differs from the planned one")
	}
	verifrt.Reach("end")
}
