//go:build verif

package influxql

import (
	"strings"

	"github.com/openGemini/openGemini/lib/verifrt"
)

func verifC12ASCII(name string, n int) string {
	s := verifrt.String(name, n)
	for i := 0; i < n; i++ {
		verifrt.Assume(s[i] < 0x80)
		// the scanner uses NUL as its end-of-input mark and turns CR into LF while reading, so neither
		// can occur in a literal of a statement the parser accepted
		verifrt.Assume(s[i] != 0 && s[i] != '\r')
	}
	return s
}

// VerifC12QuoteString: the printed form of a string literal scans back to the same string.
func VerifC12QuoteString() {
	n := verifrt.Choose("len", 4+2*verifrt.Tier()) + 1
	s := verifC12ASCII("s", n)
	q := QuoteString(s)
	sc := NewScanner(strings.NewReader(q))
	tok, _, lit := sc.Scan()
	verifrt.Assert(tok == STRING, "quoted string does not scan as one string token")
	verifrt.Assert(lit == s, "quoted string scans to a different string")
	tok2, _, _ := sc.Scan()
	verifrt.Assert(tok2 == EOF, "quoted string leaves trailing tokens")
	verifrt.Reach("end")
}

// VerifC12QuoteIdent: the printed form of an identifier scans back to the same identifier.
func VerifC12QuoteIdent() {
	n := verifrt.Choose("len", 4+2*verifrt.Tier()) + 1
	s := verifC12ASCII("s", n)
	q := QuoteIdent(s)
	sc := NewScanner(strings.NewReader(q))
	tok, _, lit := sc.Scan()
	verifrt.Assert(tok == IDENT, "quoted identifier does not scan as one identifier token")
	verifrt.Assert(lit == s, "quoted identifier scans to a different identifier")
	tok2, _, _ := sc.Scan()
	verifrt.Assert(tok2 == EOF, "quoted identifier leaves trailing tokens")
	verifrt.Reach("end")
}
