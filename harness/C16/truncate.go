//go:build verif

package meta

import (
	"time"

	"github.com/openGemini/openGemini/lib/verifrt"
)

// VerifC16TruncateContract checks the real time.Time.Truncate against the contract that groups.go
// uses in its place: the result is a whole second, r <= t < r+d, and r is a multiple of d since the
// zero time.
func VerifC16TruncateContract() {
	const unixToInternal int64 = (1969*365 + 1969/4 - 1969/100 + 1969/400) * 86400
	d := []time.Duration{time.Hour, 2 * time.Hour, 24 * time.Hour}[verifrt.Choose("d", 3)]
	base := []int64{1700000000, -5000000000, 7000000000}[verifrt.Choose("base", 3)]
	s := verifrt.Int64("s")
	n := verifrt.Int64("n")
	verifrt.Assume(s >= base-1209600 && s <= base+1209600)
	verifrt.Assume(n >= 0 && n < 1000000000)
	t := time.Unix(s, n)
	r := t.Truncate(d)
	d1 := int64(d / time.Second)
	rs := r.Unix()
	verifrt.Assert(r.Nanosecond() == 0, "truncation to whole seconds left nanoseconds")
	verifrt.Assert(rs <= s, "truncation is after t")
	verifrt.Assert(s-rs < d1, "truncation is more than d before t")
	verifrt.Assert((rs+unixToInternal)%d1 == 0, "truncation is not a multiple of d since the zero time")
	verifrt.Reach("end")
}
