//go:build verif

package meta

import (
	"reflect"
	"time"

	"github.com/agiledragon/gomonkey/v2"
	"github.com/gogo/protobuf/proto"
	"github.com/openGemini/openGemini/lib/config"
	"github.com/openGemini/openGemini/lib/util"
	"github.com/openGemini/openGemini/lib/util/lifted/influx/influxql"
	proto2 "github.com/openGemini/openGemini/lib/util/lifted/influx/meta/proto"
	"github.com/openGemini/openGemini/lib/verifrt"
)

//verif:stub (time.Time).Truncate = verifC16Truncate

const verifC16UnixToInternal int64 = (1969*365 + 1969/4 - 1969/100 + 1969/400) * 86400

// verifC16Truncate is the documented contract of time.Time.Truncate for durations that are whole
// seconds: the result is the unique instant r with r <= t < r+d that is a multiple of d since the zero
// time. (The real body divides a symbolic product by 1e9, which no back end here decides in reasonable
// time; VerifSelfTruncateContract checks the real function against this contract.)
func verifC16Truncate(t time.Time, d time.Duration) time.Time {
	d1 := int64(d / time.Second)
	q := verifrt.Int64("truncQuot") // r is the q-th multiple of d since the zero time: no division needed
	qBase := (verifC16Base + verifC16UnixToInternal) / d1
	verifrt.Assume(q >= qBase-1209600/d1-1 && q <= qBase+1209600/d1+1)
	r := q*d1 - verifC16UnixToInternal
	ts := t.Unix()
	verifrt.Assume(r <= ts && ts-r < d1)
	return time.Unix(r, 0)
}

// VerifNativeSetup installs the same contract natively so that replays consume the same inputs.
func VerifNativeSetup() {
	gomonkey.ApplyMethod(reflect.TypeOf(time.Time{}), "Truncate", verifC16Truncate)
}

var verifC16Base int64

var verifC16Durations = []time.Duration{time.Hour, 2 * time.Hour, 24 * time.Hour, 168 * time.Hour}

// verifC16Catalogue builds a small well-formed catalogue through the real commands.
func verifC16Catalogue(sgDur time.Duration) *Data {
	data := &Data{PtNumPerNode: 1}
	data.CreateDataNode("127.0.0.1:8086", "127.0.0.1:8188", "", "")
	data.CreateDataNode("127.0.0.2:8086", "127.0.0.2:8188", "", "")
	err := data.CreateDatabase("db", nil, nil, false, 1, nil)
	verifrt.Assert(err == nil, "setup: CreateDatabase failed")
	_, err = data.CreateDBPtView("db")
	verifrt.Assert(err == nil, "setup: CreateDBPtView failed")
	rpi := &RetentionPolicyInfo{Name: "rp", ReplicaN: 1, ShardGroupDuration: sgDur, IndexGroupDuration: 2 * sgDur}
	err = data.CreateRetentionPolicy("db", rpi, true)
	verifrt.Assert(err == nil, "setup: CreateRetentionPolicy failed")
	err = data.CreateMeasurement("db", "rp", "m", &proto2.ShardKeyInfo{ShardKey: []string{"h"}, Type: proto.String(influxql.HASH)}, 0, nil, 0, nil, nil, nil)
	verifrt.Assert(err == nil, "setup: CreateMeasurement failed")
	return data
}

// verifC16Bases: windows of instants explored (seconds since the Unix epoch): each window spans
// +-2 weeks around a base so that group boundaries of every duration fall inside it.
var verifC16Bases = []int64{1700000000, -5000000000, 7000000000}

func verifC16Instant(name string, base int64) time.Time {
	s := verifrt.Int64(name + "Sec")
	n := verifrt.Int64(name + "Nsec")
	verifrt.Assume(s >= base-1209600 && s <= base+1209600)
	verifrt.Assume(n >= 0 && n < 1000000000)
	return time.Unix(s, n)
}

// verifC16WellFormed asserts the catalogue invariant for the policy's live groups.
func verifC16WellFormed(data *Data, what string) {
	rp, err := data.RetentionPolicy("db", "rp")
	verifrt.Assert(err == nil && rp != nil, what+": retention policy vanished")
	sgs := rp.ShardGroups
	for i := range sgs {
		verifrt.Assert(sgs[i].StartTime.Before(sgs[i].EndTime), what+": empty or inverted group span")
		verifrt.Assert(sgs[i].ID <= data.MaxShardGroupID, what+": group id above the id counter")
		for k := range sgs[i].Shards {
			verifrt.Assert(sgs[i].Shards[k].ID <= data.MaxShardID, what+": shard id above the id counter")
			found := false
			for _, ig := range rp.IndexGroups {
				for _, ix := range ig.Indexes {
					if ix.ID == sgs[i].Shards[k].IndexID {
						found = true
					}
				}
			}
			verifrt.Assert(found, what+": shard refers to an index that does not exist")
		}
		for j := i + 1; j < len(sgs); j++ {
			verifrt.Assert(sgs[i].ID != sgs[j].ID, what+": duplicate shard group id")
			if sgs[i].Deleted() || sgs[j].Deleted() {
				continue
			}
			verifrt.Assert(!sgs[i].EndTime.After(sgs[j].StartTime), what+": live shard groups overlap or are out of order")
			for k := range sgs[i].Shards {
				for l := range sgs[j].Shards {
					verifrt.Assert(sgs[i].Shards[k].ID != sgs[j].Shards[l].ID, what+": duplicate shard id")
				}
			}
		}
	}
}

// verifC16TwoGroups: create a group at t1, optionally change the shard-group duration, create a group at t2.
func verifC16TwoGroups(changeDuration bool) { verifC16TwoGroupsAt(changeDuration, false) }

// verifC16MaxSec/Nsec: the largest valid timestamp (models.MaxNanoTime) as (seconds, nanoseconds).
const verifC16MaxSec, verifC16MaxNsec = 9223372036, 854775806

func verifC16TwoGroupsAt(changeDuration, endOfTime bool) {
	d1 := verifC16Durations[verifrt.Choose("d1", 3)]
	verifC16Base = verifC16Bases[0]
	if endOfTime {
		verifC16Base = verifC16MaxSec - 1000000 // the window reaches past the last valid timestamp
	} else if verifrt.Tier() > 0 {
		verifC16Base = verifC16Bases[verifrt.Choose("base", len(verifC16Bases))]
	}
	data := verifC16Catalogue(d1)
	t1 := verifC16Instant("t1", verifC16Base)
	if endOfTime { // only valid timestamps are ever written
		verifrt.Assume(t1.Unix() < verifC16MaxSec || (t1.Unix() == verifC16MaxSec && t1.Nanosecond() <= verifC16MaxNsec))
	}
	err := data.CreateShardGroup("db", "rp", t1, util.Hot, config.TSSTORE, 0)
	verifrt.Assert(err == nil, "CreateShardGroup(t1) failed")
	verifC16WellFormed(data, "after first group")
	g1, _ := data.ShardGroupByTimestampAndEngineType("db", "rp", t1, config.TSSTORE)
	verifrt.Assert(g1 != nil && g1.Contains(t1), "group created for t1 does not contain t1")
	if !endOfTime {
		verifrt.Assert(g1.EndTime.Sub(g1.StartTime) == d1, "group span differs from the shard-group duration")
	} else if g1.EndTime.Sub(g1.StartTime) != d1 {
		verifrt.Reach("clamped")
	}
	maxSG, maxShard := data.MaxShardGroupID, data.MaxShardID
	if changeDuration {
		d2 := verifC16Durations[verifrt.Choose("d2", 3)]
		verifrt.Assume(d2 != d1)
		rpu := &RetentionPolicyUpdate{}
		rpu.SetShardGroupDuration(d2)
		err = data.UpdateRetentionPolicy("db", "rp", rpu, false)
		verifrt.Assert(err == nil, "UpdateRetentionPolicy failed")
		verifrt.Reach("changed")
	}
	t2 := verifC16Instant("t2", verifC16Base)
	if endOfTime {
		verifrt.Assume(t2.Unix() < verifC16MaxSec || (t2.Unix() == verifC16MaxSec && t2.Nanosecond() <= verifC16MaxNsec))
	}
	err = data.CreateShardGroup("db", "rp", t2, util.Hot, config.TSSTORE, 0)
	verifrt.Assert(err == nil, "CreateShardGroup(t2) failed")
	verifC16WellFormed(data, "after second group")
	g2, _ := data.ShardGroupByTimestampAndEngineType("db", "rp", t2, config.TSSTORE)
	verifrt.Assert(g2 != nil && g2.Contains(t2), "no group contains t2 after CreateShardGroup(t2)")
	if g2.ID != g1.ID {
		verifrt.Assert(g2.ID > maxSG, "shard group id handed out twice")
		for k := range g2.Shards {
			verifrt.Assert(g2.Shards[k].ID > maxShard, "shard id handed out twice")
		}
		verifrt.Reach("second")
	}
	verifrt.Reach("end")
}

func VerifC16TwoGroups() { verifC16TwoGroups(false) }

// VerifC16EndOfTime: the same step at the end of the time line, where the last group is clamped to the
// largest valid timestamp: it must still contain every valid timestamp, and a second request for it must
// find it instead of creating an overlapping twin.
func VerifC16EndOfTime() { verifC16TwoGroupsAt(false, true) }

// VerifC16DurationChangeFinding re-derives the listed finding: after ALTER RETENTION POLICY ... SHARD DURATION the
// next group is aligned to the new duration and can overlap an existing one.
func VerifC16DurationChangeFinding() { verifC16TwoGroups(true) }

// VerifC16DeletedGroup: a group is created, marked deleted, the shard-group duration is lowered, and groups
// are requested again at the same instant and at a second one. A deleted group does not stand for a live
// one (the instant gets a new live group) and does not hide one either: asking again for a covered instant
// finds the live group instead of creating an overlapping twin.
func VerifC16DeletedGroup() {
	verifC16Base = verifC16Bases[0]
	data := verifC16Catalogue(168 * time.Hour)
	t1 := verifC16Instant("t1", verifC16Base)
	verifrt.Assert(data.CreateShardGroup("db", "rp", t1, util.Hot, config.TSSTORE, 0) == nil, "CreateShardGroup(t1) failed")
	g1, _ := data.ShardGroupByTimestampAndEngineType("db", "rp", t1, config.TSSTORE)
	verifrt.Assert(g1 != nil, "no group for t1")
	id1 := g1.ID // g1 points into the policy's group slice, which is re-sorted by later commands
	verifrt.Assert(data.DeleteShardGroup("db", "rp", id1, 1, MarkDelete) == nil, "DeleteShardGroup failed")
	rpu := &RetentionPolicyUpdate{}
	rpu.SetShardGroupDuration(verifC16Durations[verifrt.Choose("d2", 3)]) // 1h, 2h or 24h: inside the deleted week
	verifrt.Assert(data.UpdateRetentionPolicy("db", "rp", rpu, false) == nil, "UpdateRetentionPolicy failed")
	verifrt.Assert(data.CreateShardGroup("db", "rp", t1, util.Hot, config.TSSTORE, 0) == nil, "CreateShardGroup(t1) after delete failed")
	g2, _ := data.ShardGroupByTimestampAndEngineType("db", "rp", t1, config.TSSTORE)
	verifrt.Assert(g2 != nil && g2.ID != id1 && !g2.Deleted() && g2.Contains(t1), "a deleted group stands for a live one")
	id2, start2, end2 := g2.ID, g2.StartTime, g2.EndTime
	verifC16WellFormed(data, "after re-creating a deleted span")
	t2 := verifC16Instant("t2", verifC16Base)
	maxSG := data.MaxShardGroupID
	verifrt.Assert(data.CreateShardGroup("db", "rp", t2, util.Hot, config.TSSTORE, 0) == nil, "CreateShardGroup(t2) failed")
	verifC16WellFormed(data, "after the second request")
	_ = id2
	if !t2.Before(start2) && t2.Before(end2) {
		verifrt.Assert(data.MaxShardGroupID == maxSG, "a covered instant got a second live group")
		verifrt.Reach("covered")
	}
	verifrt.Reach("end")
}

// VerifC16ExpandGroups: a store node joins (the number of partitions grows) and the existing index and shard
// groups are expanded: every index id and every shard id is still handed out once, and every shard refers
// to an existing index.
func VerifC16ExpandGroups() {
	verifC16Base = verifC16Bases[0]
	data := verifC16Catalogue(verifC16Durations[verifrt.Choose("d1", 3)])
	data.ClusterPtNum = 2
	t1 := verifC16Instant("t1", verifC16Base)
	verifrt.Assert(data.CreateShardGroup("db", "rp", t1, util.Hot, config.TSSTORE, 0) == nil, "CreateShardGroup failed")
	if verifrt.Tier() > 0 && verifrt.Bool("twoGroups") {
		t2 := verifC16Instant("t2", verifC16Base)
		verifrt.Assert(data.CreateShardGroup("db", "rp", t2, util.Hot, config.TSSTORE, 0) == nil, "CreateShardGroup(t2) failed")
	}
	data.ClusterPtNum = 3 + uint32(verifrt.Choose("grow", 2))
	data.ExpandGroups()
	verifC16WellFormed(data, "after expanding the groups")
	rp, _ := data.RetentionPolicy("db", "rp")
	var ids []uint64
	for _, ig := range rp.IndexGroups {
		for _, ix := range ig.Indexes {
			verifrt.Assert(ix.ID <= data.MaxIndexID, "index id above the id counter")
			for _, o := range ids {
				verifrt.Assert(o != ix.ID, "an index id is used twice")
			}
			ids = append(ids, ix.ID)
		}
	}
	for i := range rp.ShardGroups {
		verifrt.Assert(len(rp.ShardGroups[i].Shards) == int(data.ClusterPtNum), "a shard group was not expanded to the new number of partitions")
	}
	verifrt.Reach("end")
}
