//go:build verif

package meta

import (
	"time"

	"github.com/gogo/protobuf/proto"
	"github.com/openGemini/openGemini/lib/config"
	"github.com/openGemini/openGemini/lib/util"
	"github.com/openGemini/openGemini/lib/util/lifted/influx/influxql"
	proto2 "github.com/openGemini/openGemini/lib/util/lifted/influx/meta/proto"
	"github.com/openGemini/openGemini/lib/verifrt"
)

// verifC15Catalogue builds a small catalogue through the real commands: 2 data nodes, 1 database with
// pt view, 1 retention policy, 1 hash-sharded measurement with a schema, 1 shard group (+ index group),
// 1 user.
func verifC15Catalogue() *Data {
	data := &Data{PtNumPerNode: 1}
	data.CreateDataNode("127.0.0.1:8086", "127.0.0.1:8188", "", "")
	data.CreateDataNode("127.0.0.2:8086", "127.0.0.2:8188", "", "")
	err := data.CreateDatabase("db", nil, nil, false, 1, nil)
	verifrt.Assert(err == nil, "setup: CreateDatabase failed")
	_, err = data.CreateDBPtView("db")
	verifrt.Assert(err == nil, "setup: CreateDBPtView failed")
	rpi := &RetentionPolicyInfo{Name: "rp", ReplicaN: 1, ShardGroupDuration: time.Hour, IndexGroupDuration: 2 * time.Hour}
	err = data.CreateRetentionPolicy("db", rpi, true)
	verifrt.Assert(err == nil, "setup: CreateRetentionPolicy failed")
	err = data.CreateMeasurement("db", "rp", "m", &proto2.ShardKeyInfo{ShardKey: []string{"h"}, Type: proto.String(influxql.HASH)}, 0, nil, 0, nil, nil, nil)
	verifrt.Assert(err == nil, "setup: CreateMeasurement failed")
	err = data.CreateShardGroup("db", "rp", time.Unix(1700000000, 0), util.Hot, config.TSSTORE, 0)
	verifrt.Assert(err == nil, "setup: CreateShardGroup failed")
	return data
}

// VerifC15Clone: the snapshot's deep copy preserves every scalar the catalogue holds. Every numeric and
// boolean leaf of the catalogue is arbitrary; a field forgotten by a clone method differs.
func VerifC15Clone() {
	data := verifC15Catalogue()
	verifrt.Havoc(data, "cat")
	c := data.Clone()
	rp := data.Databases["db"].RetentionPolicies["rp"]
	crp := c.Databases["db"].RetentionPolicies["rp"]
	verifrt.Assert(crp != nil, "clone lost the retention policy")
	for name, m := range rp.Measurements {
		cm := crp.Measurements[name]
		verifrt.Assert(cm != nil, "clone lost a measurement")
		verifrt.Assert(cm.ID == m.ID, "measurement clone lost the measurement identifier")
		verifrt.Assert(verifrt.DeepEqual(cm, m), "measurement clone differs from the original")
	}
	verifrt.Assert(verifrt.DeepEqual(crp.ShardGroups, rp.ShardGroups), "shard groups differ after clone")
	verifrt.Assert(verifrt.DeepEqual(crp.IndexGroups, rp.IndexGroups), "index groups differ after clone")
	verifrt.Assert(verifrt.DeepEqual(c.DataNodes, data.DataNodes), "data nodes differ after clone")
	verifrt.Assert(verifrt.DeepEqual(c.PtView, data.PtView), "partition view differs after clone")
	verifrt.Assert(verifrt.DeepEqual(c, data), "catalogue clone differs from the original")
	verifrt.Reach("end")
}
