//go:build verif

package meta

import (
	"time"

	"github.com/gogo/protobuf/proto"
	"github.com/openGemini/openGemini/lib/config"
	"github.com/openGemini/openGemini/lib/util"
	"github.com/openGemini/openGemini/lib/util/lifted/influx/influxql"
	proto2 "github.com/openGemini/openGemini/lib/util/lifted/influx/meta/proto"
	"github.com/openGemini/openGemini/lib/util/lifted/vm/protoparser/influx"
	"github.com/openGemini/openGemini/lib/verifrt"
)

// verifC15Catalogue builds a small catalogue through the real commands: 2 data nodes, 1 database with
// pt view, 1 retention policy, 1 hash-sharded measurement with a schema, 1 shard group (+ index group),
// 1 user.
func verifC15Catalogue() *Data { return verifC15CatalogueAt(1700000000) }

// verifC15CatalogueAt: the shard group is created for the given instant (seconds since the epoch).
func verifC15CatalogueAt(sec int64) *Data {
	data := &Data{PtNumPerNode: 1}
	data.CreateDataNode("127.0.0.1:8086", "127.0.0.1:8188", "", "")
	data.CreateDataNode("127.0.0.2:8086", "127.0.0.2:8188", "", "")
	err := data.CreateDatabase("db", nil, nil, false, 1, nil)
	verifrt.Assert(err == nil, "setup: CreateDatabase failed")
	_, err = data.CreateDBPtView("db")
	verifrt.Assert(err == nil, "setup: CreateDBPtView failed")
	rpi := &RetentionPolicyInfo{Name: "rp", ReplicaN: 1, ShardGroupDuration: time.Hour, IndexGroupDuration: 2 * time.Hour}
	err = data.CreateRetentionPolicy("db", rpi, true)
	verifrt.Assert(err == nil, "setup: CreateRetentionPolicy failed")
	err = data.CreateMeasurement("db", "rp", "m", &proto2.ShardKeyInfo{ShardKey: []string{"h"}, Type: proto.String(influxql.HASH)}, 0, nil, 0, nil, nil, nil)
	verifrt.Assert(err == nil, "setup: CreateMeasurement failed")
	err = data.CreateShardGroup("db", "rp", time.Unix(sec, 0), util.Hot, config.TSSTORE, 0)
	verifrt.Assert(err == nil, "setup: CreateShardGroup failed")
	return data
}

// VerifC15Clone: the snapshot's deep copy preserves every scalar the catalogue holds. Every numeric and
// boolean leaf of the catalogue is arbitrary; a field forgotten by a clone method differs.
func VerifC15Clone() {
	data := verifC15Catalogue()
	verifrt.Havoc(data, "cat")
	c := data.Clone()
	rp := data.Databases["db"].RetentionPolicies["rp"]
	crp := c.Databases["db"].RetentionPolicies["rp"]
	verifrt.Assert(crp != nil, "clone lost the retention policy")
	for name, m := range rp.Measurements {
		cm := crp.Measurements[name]
		verifrt.Assert(cm != nil, "clone lost a measurement")
		verifrt.Assert(cm.ID == m.ID, "measurement clone lost the measurement identifier")
		verifrt.Assert(verifrt.DeepEqual(cm, m), "measurement clone differs from the original")
	}
	verifrt.Assert(verifrt.DeepEqual(crp.ShardGroups, rp.ShardGroups), "shard groups differ after clone")
	verifrt.Assert(verifrt.DeepEqual(crp.IndexGroups, rp.IndexGroups), "index groups differ after clone")
	verifrt.Assert(verifrt.DeepEqual(c.DataNodes, data.DataNodes), "data nodes differ after clone")
	verifrt.Assert(verifrt.DeepEqual(c.PtView, data.PtView), "partition view differs after clone")
	verifrt.Assert(verifrt.DeepEqual(c, data), "catalogue clone differs from the original")
	verifrt.Reach("end")
}

// VerifC15SnapshotRoundTrip: a snapshot is the catalogue converted to its protobuf structs and back (the
// byte-level wire step is the protobuf library's and is not encoded). Whatever later commands read must
// survive: counters, the retention policy with its measurements, shard and index groups, and the
// measurement version table - also when every measurement of the policy has been dropped, which is when
// the version table alone decides the physical name of a re-created measurement.
func VerifC15SnapshotRoundTrip() {
	// the shard group lies in the present, or ends exactly at the Unix epoch, or starts exactly there
	data := verifC15CatalogueAt([]int64{1700000000, -1800, 1800}[verifrt.Choose("when", 3)])
	dropped := verifrt.Bool("dropped")
	if dropped {
		err := data.MarkMeasurementDelete("db", "rp", "m")
		verifrt.Assert(err == nil, "setup: mark delete failed")
		rp0, _ := data.RetentionPolicy("db", "rp")
		for name := range rp0.Measurements {
			err = data.DropMeasurement("db", "rp", name)
			verifrt.Assert(err == nil, "setup: drop failed")
		}
		verifrt.Assert(len(rp0.Measurements) == 0, "setup: measurement not dropped")
		verifrt.Reach("empty-policy")
	}
	// arbitrary counters, identifiers and versions (time stamps stay concrete: converting an arbitrary
	// instant to nanoseconds and back is a 64-bit division no back end here decides quickly)
	data.MaxShardGroupID, data.MaxShardID, data.MaxIndexGroupID = verifrt.Uint64("c1"), verifrt.Uint64("c2"), verifrt.Uint64("c3")
	data.MaxIndexID, data.MaxMstID, data.MaxNodeID = verifrt.Uint64("c4"), verifrt.Uint64("c5"), verifrt.Uint64("c6")
	data.Index, data.Term = verifrt.Uint64("c7"), verifrt.Uint64("c8")
	{
		rp0, _ := data.RetentionPolicy("db", "rp")
		if dropped { // any version reached by earlier re-creations (the physical name is derived from it)
			for name, v := range rp0.MstVersions {
				v.Version = uint32(verifrt.Uint16("ver"))
				v.NameWithVersion = influx.GetNameWithVersion(name, v.Version)
				rp0.MstVersions[name] = v
			}
		}
		for _, m := range rp0.Measurements {
			m.ID = verifrt.Uint64("mstID")
			m.MarkDeleted = verifrt.Bool("markDeleted")
		}
		for i := range rp0.ShardGroups {
			rp0.ShardGroups[i].ID = verifrt.Uint64("sgID")
			for j := range rp0.ShardGroups[i].Shards {
				rp0.ShardGroups[i].Shards[j].ID = verifrt.Uint64("shID")
				rp0.ShardGroups[i].Shards[j].IndexID = verifrt.Uint64("ixID")
			}
		}
		rp0.ReplicaN = int(verifrt.Uint32("replicaN"))
	}
	pb := data.Marshal()
	back := &Data{}
	back.Unmarshal(pb)
	rp := data.Databases["db"].RetentionPolicies["rp"]
	brp := back.Databases["db"].RetentionPolicies["rp"]
	verifrt.Assert(brp != nil, "snapshot lost the retention policy")
	verifrt.Assert(len(brp.MstVersions) == len(rp.MstVersions), "snapshot lost or invented measurement versions")
	for name, v := range rp.MstVersions {
		bv, ok := brp.MstVersions[name]
		verifrt.Assert(ok && bv.Version == v.Version && bv.NameWithVersion == v.NameWithVersion, "measurement version differs after the snapshot round trip")
	}
	verifrt.Assert(len(brp.Measurements) == len(rp.Measurements), "snapshot lost or invented measurements")
	for name, m := range rp.Measurements {
		bm := brp.Measurements[name]
		verifrt.Assert(bm != nil && bm.ID == m.ID && bm.Name == m.Name && bm.MarkDeleted == m.MarkDeleted && bm.EngineType == m.EngineType, "measurement differs after the snapshot round trip")
		verifrt.Assert(verifrt.DeepEqual(bm.ShardKeys, m.ShardKeys), "shard keys differ after the snapshot round trip")
	}
	verifrt.Assert(len(brp.ShardGroups) == len(rp.ShardGroups), "shard group count differs after the snapshot round trip")
	for i := range rp.ShardGroups {
		a, b := &rp.ShardGroups[i], &brp.ShardGroups[i]
		verifrt.Assert(a.ID == b.ID && a.StartTime.Equal(b.StartTime) && a.EndTime.Equal(b.EndTime) && a.EngineType == b.EngineType && len(a.Shards) == len(b.Shards), "shard group differs after the snapshot round trip")
		for j := range a.Shards {
			verifrt.Assert(a.Shards[j].ID == b.Shards[j].ID && a.Shards[j].IndexID == b.Shards[j].IndexID && verifrt.DeepEqual(a.Shards[j].Owners, b.Shards[j].Owners), "shard differs after the snapshot round trip")
		}
	}
	verifrt.Assert(rp.Duration == brp.Duration && rp.ShardGroupDuration == brp.ShardGroupDuration && rp.ReplicaN == brp.ReplicaN, "retention policy options differ after the snapshot round trip")
	verifrt.Assert(back.MaxShardGroupID == data.MaxShardGroupID && back.MaxShardID == data.MaxShardID && back.MaxIndexGroupID == data.MaxIndexGroupID &&
		back.MaxIndexID == data.MaxIndexID && back.MaxMstID == data.MaxMstID && back.MaxNodeID == data.MaxNodeID && back.Index == data.Index && back.Term == data.Term, "id counters differ after the snapshot round trip")
	verifrt.Assert(verifrt.DeepEqual(back.DataNodes, data.DataNodes), "data nodes differ after the snapshot round trip")
	verifrt.Reach("end")
}

func verifC15Shard(typ string) *proto2.ShardKeyInfo {
	return &proto2.ShardKeyInfo{ShardKey: []string{"h"}, Type: proto.String(typ)}
}

// verifC15Replay applies one fixed command log to a fresh catalogue. Every `range` over a map inside the
// commands takes an arbitrary order (the executor explores them), as on two replicas whose hash maps differ.
func verifC15Replay(secondName string, markFirst bool, secondType string) (*Data, [3]bool) {
	data := &Data{PtNumPerNode: 1, NumOfShards: 2}
	data.CreateDataNode("127.0.0.1:8086", "127.0.0.1:8188", "", "")
	data.CreateDataNode("127.0.0.2:8086", "127.0.0.2:8188", "", "")
	_ = data.CreateDatabase("db", nil, nil, false, 1, nil)
	_, _ = data.CreateDBPtView("db")
	_ = data.CreateRetentionPolicy("db", &RetentionPolicyInfo{Name: "rp", ReplicaN: 1, ShardGroupDuration: time.Hour, IndexGroupDuration: 2 * time.Hour}, true)
	var errs [3]bool
	errs[0] = data.CreateMeasurement("db", "rp", "m", verifC15Shard(influxql.HASH), 0, nil, 0, nil, nil, nil) != nil
	if markFirst {
		_ = data.MarkMeasurementDelete("db", "rp", "m")
	}
	errs[1] = data.CreateMeasurement("db", "rp", secondName, verifC15Shard(secondType), 0, nil, 0, nil, nil, nil) != nil
	errs[2] = data.CreateShardGroup("db", "rp", time.Unix(1700000000, 0), util.Hot, config.TSSTORE, 0) != nil
	return data, errs
}

// VerifC15ReplicasConverge: two replicas apply the same command log (create a hash-sharded measurement,
// optionally mark it deleted, create a second measurement - another name, or the same name again - with the
// same or the other sharding type, create a shard group) with independent, arbitrary map iteration
// orders; results and catalogues must be equal. Natively Go's own randomised map order is sampled 256 times.
func VerifC15ReplicasConverge() {
	verifrt.MapOrder(true)
	mark := verifrt.Bool("markFirst")
	typ := []string{influxql.HASH, influxql.RANGE}[verifrt.Choose("secondType", 2)]
	name := []string{"n", "m"}[verifrt.Choose("secondName", 2)]
	trials := 1
	if !verifrt.Symbolic() {
		trials = 256
	}
	for t := 0; t < trials; t++ {
		a, ea := verifC15Replay(name, mark, typ)
		b, eb := verifC15Replay(name, mark, typ)
		verifrt.Assert(ea == eb, "replicas disagree about which commands failed")
		verifrt.Assert(a.MaxShardID == b.MaxShardID && a.MaxShardGroupID == b.MaxShardGroupID && a.MaxIndexID == b.MaxIndexID, "replicas diverge in their id counters")
		ra, rb := a.Databases["db"].RetentionPolicies["rp"], b.Databases["db"].RetentionPolicies["rp"]
		verifrt.Assert(len(ra.ShardGroups) == len(rb.ShardGroups), "replicas diverge in their shard groups")
		for i := range ra.ShardGroups {
			verifrt.Assert(len(ra.ShardGroups[i].Shards) == len(rb.ShardGroups[i].Shards), "replicas diverge in the number of shards of a group")
		}
		verifrt.Assert(verifrt.DeepEqual(ra.ShardGroups, rb.ShardGroups), "replicas diverge in their shard groups")
		if !ea[1] && len(ra.Measurements) == 2 {
			verifrt.Reach("two-measurements")
		}
	}
	verifrt.Reach("end")
}

// VerifC15SnapshotIsolated: raft takes the snapshot object (Clone) first and persists it later, while
// further commands keep changing the live catalogue in place. The snapshot must not see them: after
// cloning, every scalar leaf of the live catalogue is overwritten with new arbitrary values, and the
// clone must still hold the old ones (partition view, nodes, shard and index groups, measurements).
func VerifC15SnapshotIsolated() {
	data := verifC15Catalogue()
	verifrt.Havoc(data, "before")
	c := data.Clone()
	oldVer := data.PtView["db"][0].Ver
	oldStatus := data.PtView["db"][0].Status
	oldNodeID := data.DataNodes[0].ID
	rp := data.Databases["db"].RetentionPolicies["rp"]
	oldShard := rp.ShardGroups[0].Shards[0].ID
	oldOwner := rp.ShardGroups[0].Shards[0].Owners[0]
	oldIndex := rp.IndexGroups[0].Indexes[0].ID
	var oldMst uint64
	for _, m := range rp.Measurements {
		oldMst = m.ID
	}
	verifrt.Havoc(data, "after") // the live catalogue moves on, in place
	// the partition view is a map of slices of plain structs, which Havoc leaves alone: update it in place
	// the way UpdatePtVersion / updatePtViewStatus do
	oldPtOwner := data.PtView["db"][0].Owner.NodeID
	for i := range data.PtView["db"] {
		data.PtView["db"][i].Ver = verifrt.Uint64("after.ptVer")
		data.PtView["db"][i].Status = PtStatus(verifrt.Uint32("after.ptStatus"))
		data.PtView["db"][i].Owner.NodeID = verifrt.Uint64("after.ptOwner")
	}
	crp := c.Databases["db"].RetentionPolicies["rp"]
	verifrt.Assert(c.PtView["db"][0].Ver == oldVer && c.PtView["db"][0].Status == oldStatus && c.PtView["db"][0].Owner.NodeID == oldPtOwner, "the snapshot shares its partition view with the live catalogue")
	verifrt.Assert(c.DataNodes[0].ID == oldNodeID, "the snapshot shares its node list with the live catalogue")
	verifrt.Assert(crp.ShardGroups[0].Shards[0].ID == oldShard && crp.ShardGroups[0].Shards[0].Owners[0] == oldOwner, "the snapshot shares its shards with the live catalogue")
	verifrt.Assert(crp.IndexGroups[0].Indexes[0].ID == oldIndex, "the snapshot shares its index groups with the live catalogue")
	for _, m := range crp.Measurements {
		verifrt.Assert(m.ID == oldMst, "the snapshot shares its measurements with the live catalogue")
	}
	verifrt.Reach("end")
}
