//go:build verif

package engine

import (
	"github.com/openGemini/openGemini/lib/record"
	"github.com/openGemini/openGemini/lib/util/lifted/vm/protoparser/influx"
	"github.com/openGemini/openGemini/lib/verifrt"
)

// verifC18Times: n ascending sample timestamps in [0, 24).
func verifC18Times(n int) []int64 {
	ts := make([]int64, n)
	for i := range ts {
		ts[i] = verifrt.Int64("t")
		verifrt.Assume(ts[i] >= 0 && ts[i] < 24)
		if i > 0 {
			verifrt.Assume(ts[i] > ts[i-1])
		}
	}
	return ts
}

func verifC18Record(ts []int64) *record.Record {
	rec := record.NewRecord(record.Schemas{{Name: "value", Type: influx.Field_Type_Float}, {Name: "time", Type: influx.Field_Type_Int}}, false)
	for _, t := range ts {
		rec.Column(0).AppendFloat(1)
		rec.AppendTime(t)
	}
	return rec
}

// verifC18Windows checks the (from, to) index pairs produced for one record: evaluation step k of the
// record ends at firstStep+k*step and must cover exactly the samples with end-width <= t <= end
// (the window of the pinned Prometheus version is closed on both sides).
func verifC18Windows(ts []int64, idx []uint16, firstStep, step, width, startSample, endSample int64) {
	// the first evaluation step of the record is the first grid point at or after its first sample
	verifrt.Assert(firstStep >= startSample && firstStep <= endSample && (firstStep-startSample)%step == 0 || firstStep == endSample, "first step is not on the evaluation grid")
	if ts[0] > startSample && ts[0] <= endSample {
		verifrt.Assert(firstStep >= ts[0] && firstStep-ts[0] < step, "first step is not the first grid point at or after the first sample")
	}
	verifrt.Assert(len(idx)%2 == 0, "odd number of window bounds")
	for k := 0; 2*k < len(idx); k++ {
		end := firstStep + int64(k)*step
		from, to := int(idx[2*k]), int(idx[2*k+1])
		for i, t := range ts {
			in := t >= end-width && t <= end
			covered := i >= from && i < to
			verifrt.Assert(in == covered, "evaluation window does not hold exactly the samples with end-width <= t <= end")
		}
	}
}

// VerifC18RangeWindow: RangeVectorCursor.getIntervalIndex for one record.
func VerifC18RangeWindow() {
	n := 1 + verifrt.Choose("n", 2+2*verifrt.Tier())
	ts := verifC18Times(n)
	step := int64(1 + verifrt.Choose("step", 3))
	width := verifrt.Int64("range")
	verifrt.Assume(width >= 0 && width < 8)
	start := verifrt.Int64("start")
	verifrt.Assume(start >= 0 && start < 6)
	nsteps := verifrt.Int64("nsteps")
	verifrt.Assume(nsteps >= 0 && nsteps < 10)
	end := start + nsteps*step
	c := &RangeVectorCursor{rangeDuration: width, step: step, startSample: start, endSample: end}
	c.getIntervalIndex(verifC18Record(ts))
	verifC18Windows(ts, c.intervalIndex, c.firstStep, step, width, start, end)
	verifrt.Reach("end")
}

// VerifC18InstantWindow: InstantVectorCursor.computeIntervalIndex (look-back window) for one record.
func VerifC18InstantWindow() {
	n := 1 + verifrt.Choose("n", 2+2*verifrt.Tier())
	ts := verifC18Times(n)
	step := int64(1 + verifrt.Choose("step", 3))
	lb := verifrt.Int64("lookback")
	verifrt.Assume(lb >= 0 && lb < 8)
	start := verifrt.Int64("start")
	verifrt.Assume(start >= 0 && start < 6)
	nsteps := verifrt.Int64("nsteps")
	verifrt.Assume(nsteps >= 0 && nsteps < 10)
	end := start + nsteps*step
	c := &InstantVectorCursor{lookUpDelta: lb, step: step, startSample: start, endSample: end}
	c.computeIntervalIndex(verifC18Record(ts))
	verifC18Windows(ts, c.intervalIndex, c.firstStep, step, lb, start, end)
	verifrt.Reach("end")
}

// VerifC18CarryOver: the last sample of a record is carried into the following evaluation steps while it
// is at most lookBack old (t - lookBack <= sample time, closed like the in-record window), and not beyond.
func VerifC18CarryOver() {
	s := verifrt.Int64("sample")
	lb := verifrt.Int64("lookback")
	step := int64(1 + verifrt.Choose("step", 3))
	next := verifrt.Int64("next")
	k := verifrt.Int64("k")
	verifrt.Assume(s >= 0 && s < 64 && lb >= 0 && lb < 32 && next > s && next < 96 && k >= 0 && k < 6)
	last := next + k*step
	r := newFloatSampler(floatLastReduceFunc, appendFloatValue)
	r.prevBuf.set(0, s, 7)
	out := record.NewRecord(record.Schemas{{Name: "value", Type: influx.Field_Type_Float}, {Name: "time", Type: influx.Field_Type_Int}}, false)
	r.PopulateByPrevious(out, &ReducerParams{step: step, lookBackDelta: lb}, next, last, 0, 1)
	got := out.Times()
	want := 0
	for t := next; t <= last; t += step {
		if s >= t-lb {
			verifrt.Assert(want < len(got) && got[want] == t, "a step within the look-back window of the last sample got no point")
			want++
		}
	}
	verifrt.Assert(len(got) == want, "a step outside the look-back window got a point")
	verifrt.Reach("end")
}
