//go:build verif

package engine

import (
	"math"

	"github.com/openGemini/openGemini/engine/executor"
	"github.com/openGemini/openGemini/lib/verifrt"
)

// verifC18RefRate is Prometheus' extrapolatedRate (promql/functions.go of the pinned v0.50.1) for float
// samples, written over nanosecond timestamps. The operations are applied in the order the implementation
// applies them (reduce * (extrapolated/sampled) / rangeSeconds) - upstream folds the last two into one
// factor first, which is the same real number and differs only by floating-point rounding, the
// tolerance the property allows.
func verifC18RefRate(ts []int64, vs []float64, evalT, rangeNs int64, isCounter, isRate bool) (float64, bool) {
	if len(ts) < 2 {
		return 0, false
	}
	n1 := len(ts) - 1
	firstT, lastT := ts[0], ts[n1]
	result := vs[n1] - vs[0]
	if isCounter {
		prev := vs[0]
		for _, cur := range vs[1:] {
			if cur < prev {
				result += prev
			}
			prev = cur
		}
	}
	rangeStart, rangeEnd := evalT-rangeNs, evalT
	durationToStart := float64(firstT-rangeStart) / 1e9
	durationToEnd := float64(rangeEnd-lastT) / 1e9
	sampledInterval := float64(lastT-firstT) / 1e9
	avg := sampledInterval / float64(n1)
	if isCounter && result > 0 && vs[0] >= 0 {
		durationToZero := sampledInterval * (vs[0] / result)
		if durationToZero < durationToStart {
			durationToStart = durationToZero
		}
	}
	threshold := avg * 1.1
	extrapolateTo := sampledInterval
	if durationToStart < threshold {
		extrapolateTo += durationToStart
	} else {
		extrapolateTo += avg / 2
	}
	if durationToEnd < threshold {
		extrapolateTo += durationToEnd
	} else {
		extrapolateTo += avg / 2
	}
	out := result * (extrapolateTo / sampledInterval)
	if isRate {
		out = out / (float64(rangeNs) / 1e9)
	}
	return out, true
}

// VerifC18RateExtrapolation: rate / increase / delta of the store-side reducer (floatPromRateMerge) equal
// Prometheus' extrapolatedRate for every window of 2 (thorough 2..3) samples and arbitrary float values
// (resets, negative, zero, non-finite). The time layout (range, sample instants on a grid of a quarter of
// the range) is a path choice, so that the time arithmetic folds to constants and the solver decides over
// the sample values. How the window is split over the previous and the current record only matters to
// the counter increase, which VerifC18CounterIncrease covers for every split.
func VerifC18RateExtrapolation() {
	tier := verifrt.Tier()
	n := 2 + verifrt.Choose("n", 1+tier)
	split := 1
	if tier > 0 {
		split = verifrt.Choose("split", n+1) // samples [0,split) come from the previous record
	}
	mode := verifrt.Choose("mode", 3) // rate, increase (counters) and delta (gauge)
	isCounter, isRate := mode < 2, mode == 0
	ranges := []int64{1500, 60000, 500, 4000} // milliseconds: fractional seconds, whole seconds, below a second
	rangeNs := ranges[verifrt.Choose("range", 1+3*tier)] * 1000000
	evalT := int64(3600) * 1000000000
	ts := make([]int64, n)
	vs := make([]float64, n)
	pos := -1
	for i := range ts {
		// sample i sits on grid point pos of 0..4 (0 = window start, 4 = evaluation time), strictly ascending
		pos += 1 + verifrt.Choose("gap", 5-pos-(n-i))
		ts[i] = evalT - rangeNs + int64(pos)*(rangeNs/4)
		vs[i] = verifrt.Float64("v")
	}
	merge := floatPromRateMerge(isRate, isCounter)
	got, isNil := merge(ts[:split], ts[split:], vs[:split], vs[split:], evalT, n, &ReducerParams{rangeDuration: rangeNs})
	want, ok := verifC18RefRate(ts, vs, evalT, rangeNs, isCounter, isRate)
	verifrt.Assert(isNil == !ok, "a window of two or more samples gave no rate")
	if ok {
		same := math.Float64bits(got) == math.Float64bits(want) || (got != got && want != want)
		verifrt.Assert(same, "rate/increase/delta differs from Prometheus' extrapolatedRate")
		if isCounter && vs[0] == 0 {
			verifrt.Reach("first-sample-zero")
		}
	}
	verifrt.Reach("end")
}

// VerifC18CounterIncrease: the raw increase over a window (executor.CalcReduceResult: last minus first
// value, plus the value before every counter reset) and the first / last sample it reports do not depend
// on how the window's samples are split over the previous and the current record, and equal Prometheus'
// reset handling, for arbitrary float values.
func VerifC18CounterIncrease() {
	n := 2 + verifrt.Choose("n", 2+verifrt.Tier())
	split := verifrt.Choose("split", n+1)
	isCounter := verifrt.Bool("counter")
	ts := make([]int64, n)
	vs := make([]float64, n)
	for i := range ts {
		ts[i] = int64(i+1) * 1000
		vs[i] = verifrt.Float64("v")
	}
	firstT, lastT, firstV, lastV, inc := executor.CalcReduceResult(ts[:split], ts[split:], vs[:split], vs[split:], isCounter)
	want := vs[n-1] - vs[0]
	if isCounter {
		prev := vs[0]
		for _, cur := range vs[1:] {
			if cur < prev {
				want += prev
				verifrt.Reach("reset")
			}
			prev = cur
		}
	}
	verifrt.Assert(firstT == ts[0] && lastT == ts[n-1], "first / last sample time of the window is wrong")
	verifrt.Assert(math.Float64bits(firstV) == math.Float64bits(vs[0]) && math.Float64bits(lastV) == math.Float64bits(vs[n-1]), "first / last sample value of the window is wrong")
	verifrt.Assert(math.Float64bits(inc) == math.Float64bits(want) || (inc != inc && want != want), "the increase over the window differs from Prometheus' reset handling")
	verifrt.Reach("end")
}
