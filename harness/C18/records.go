//go:build verif

package engine

import (
	"time"

	"github.com/openGemini/openGemini/engine/hybridqp"
	"github.com/openGemini/openGemini/lib/record"
	"github.com/openGemini/openGemini/lib/util/lifted/influx/query"
	"github.com/openGemini/openGemini/lib/verifrt"
)

type verifC18Catalog struct {
	hybridqp.Catalog
	opt *query.ProcessorOptions
}

func (c *verifC18Catalog) Options() hybridqp.Options { return c.opt }

type verifC18Call struct {
	ts    int64
	times []int64
}

// verifC18Scenario: the symbolic query grid and the samples of one series cut into record batches.
func verifC18Scenario(gaps bool) (recs [][]int64, all []int64, start, end, step, width int64) {
	tier := int64(verifrt.Tier())
	nrec := 2 + verifrt.Choose("batches", 1+verifrt.Tier())
	nstep := 2 + 2*verifrt.Tier() // quick: steps 1, 2; thorough: also 4 and 3
	if gaps && nstep < 3 {
		nstep = 3 // step 4 > range leaves gaps between the windows
	}
	step = []int64{1, 2, 4, 3}[verifrt.Choose("step", nstep)]
	width = verifrt.Int64("range")
	verifrt.Assume(width >= 1 && width < 4+4*tier)
	// realistic instants: nanoseconds far from 1970 (populateByLast compares a buffer index with a
	// timestamp, which only matters within a few nanoseconds of the epoch - outside this claim)
	const base = int64(1700000000) * 1000000000
	s0 := verifrt.Int64("start")
	verifrt.Assume(s0 >= 0 && s0 < 2+2*tier)
	start = base + s0
	nsteps := verifrt.Int64("nsteps")
	verifrt.Assume(nsteps >= 0 && nsteps < 4+4*tier)
	end = start + nsteps*step

	// the samples: strictly ascending over all batches, inside the queried interval [start-range, end]
	prev := start - width - 1
	for k := 0; k < nrec; k++ {
		n := 1 + verifrt.Choose("rows", 2)
		ts := make([]int64, n)
		for i := range ts {
			ts[i] = verifrt.Int64("t")
			verifrt.Assume(ts[i] > prev && ts[i] <= end)
			prev = ts[i]
		}
		recs = append(recs, ts)
		all = append(all, ts...)
	}

	return
}

// verifC18Drive feeds the batches to the reducer the way aggregateCursor and RangeVectorCursor.reduce do.
func verifC18Drive(reducer Reducer, recs [][]int64, start, end, step, width int64) *record.Record {
	opt := &query.ProcessorOptions{}
	opt.Step = time.Duration(step)
	cat := &verifC18Catalog{opt: opt}
	c := &RangeVectorCursor{rangeDuration: width, step: step, startSample: start, endSample: end}
	c.reducerParams = &ReducerParams{lastStep: end}
	out := verifC18Record(nil)
	for k, ts := range recs {
		rec := verifC18Record(ts)
		var next *record.Record
		if k+1 < len(recs) {
			next = verifC18Record(recs[k+1])
		}
		c.reducerParams.lastRec = next == nil
		c.inNextWin = isSameWindow(rec, next, nil, nil, cat, start, end, step, width)
		c.getIntervalIndex(rec)
		c.setReducerParams()
		reducer.Aggregate(&ReducerEndpoint{InputPoint: EndPointPair{Record: rec, Ordinal: 0}, OutputPoint: EndPointPair{Record: out, Ordinal: 0}}, c.reducerParams)
		c.resetReducerParams()
	}

	return out
}

// VerifC18RecordBatches: a series reaches the range-vector cursor in several record batches. The cursor
// (same-window test between batches, per-batch window index) and the slice reducer with its carry-over
// buffer (floatSliceReducer: rate, increase, delta, ...) hand every evaluation step exactly the samples
// with step-range <= t <= step - the window Prometheus evaluates - once, in step order, however the samples
// are cut into batches. The function applied to the window is a recorder, so only sample selection is
// checked here (the arithmetic is VerifC18RateExtrapolation).
func VerifC18RecordBatches() {
	recs, all, start, end, step, width := verifC18Scenario(false)
	const base = int64(1700000000) * 1000000000
	var calls []verifC18Call
	fm := func(prevT, currT []int64, prevV, currV []float64, ts int64, count int, param *ReducerParams) (float64, bool) {
		w := append(append([]int64(nil), prevT...), currT...)
		if len(w) == 0 {
			return 0, true // the reducer also offers empty windows between two batches; every function answers "no value"
		}
		calls = append(calls, verifC18Call{ts, w})
		verifrt.Observe("evaluated", ts-base)
		verifrt.Observe("samples", int64(len(w)))
		return float64(count), false
	}
	verifC18Drive(newFloatSliceReducer(floatPromRateReduce, fm), recs, start, end, step, width)

	// every evaluation step with a non-empty window is evaluated once, in order, on exactly its window
	k := 0
	for t := start; t <= end; t += step {
		var want []int64
		for _, s := range all {
			if s >= t-width && s <= t {
				want = append(want, s)
			}
		}
		if len(want) == 0 {
			continue
		}
		verifrt.Assert(k < len(calls) && calls[k].ts == t, "an evaluation step with samples in its window is not evaluated (or steps are evaluated out of order)")
		if k < len(calls) && calls[k].ts == t {
			got := calls[k].times
			verifrt.Assert(len(got) == len(want), "an evaluation step does not see exactly the samples of its window")
			for i := range want {
				if i < len(got) {
					verifrt.Assert(got[i] == want[i], "an evaluation step does not see exactly the samples of its window")
				}
			}
		}
		k++
	}
	verifrt.Assert(k == len(calls), "an evaluation step is evaluated twice, or one without samples is evaluated")
	verifrt.Reach("end")
}

// VerifC18RecordBatchesInc: the same for the incremental reducer behind sum/count/min/max/avg/last_over_time
// (floatIncAggReducer with its carried partial result and carry-over buffer), instantiated with "count the
// samples": every evaluation step whose window holds samples yields one output point, in step order, whose
// value is the number of samples with step-range <= t <= step - however the samples are cut into batches.
func VerifC18RecordBatchesInc() {
	recs, all, start, end, step, width := verifC18Scenario(true)
	fr := func(times []int64, values []float64, s, e int) (int64, float64, bool) {
		if s >= e {
			return 0, 0, true
		}
		return times[e-1], float64(e - s), false
	}
	fm := func(prev, curr float64, prevCount, currCount int) (float64, int) { return prev + curr, prevCount + currCount }
	out := verifC18Drive(newFloatIncReducer(fr, fm), recs, start, end, step, width)
	ts, vs := out.Times(), out.ColVals[0].FloatValues()
	k := 0
	for t := start; t <= end; t += step {
		n := 0
		for _, s := range all {
			if s >= t-width && s <= t {
				n++
			}
		}
		if n == 0 {
			continue
		}
		verifrt.Assert(k < len(ts) && ts[k] == t, "an evaluation step with samples in its window has no output point (or points are out of order)")
		if k < len(ts) && k < len(vs) && ts[k] == t {
			verifrt.Assert(vs[k] == float64(n), "an evaluation step does not aggregate exactly the samples of its window")
		}
		k++
	}
	verifrt.Assert(k == len(ts), "an evaluation step yields two output points, or one without samples yields a point")
	verifrt.Reach("end")
}

// VerifC18RecordBatchesLastTwo: the same for the reducer behind irate / idelta (floatRateReducer with the real
// floatIRateReduce / floatIRateUpdate and two carried points): every evaluation step whose window holds at
// least two samples is evaluated once, in step order, on the last two samples of its window; a window with
// fewer than two samples yields nothing.
func VerifC18RecordBatchesLastTwo() {
	recs, all, start, end, step, width := verifC18Scenario(false)
	type call struct{ ts, prev, last int64 }
	var calls []call
	fm := func(prevTime, lastTime int64, prevValue, lastValue float64, ts int64, pointCount int, param *ReducerParams) (float64, bool) {
		if lastTime == prevTime || pointCount < 2 {
			return 0, true // as the real merge functions answer
		}
		calls = append(calls, call{ts, prevTime, lastTime})
		return 1, false
	}
	verifC18Drive(newFloatRateReducer(floatIRateReduce, fm, floatIRateUpdate), recs, start, end, step, width)
	k := 0
	for t := start; t <= end; t += step {
		var w []int64
		for _, s := range all {
			if s >= t-width && s <= t {
				w = append(w, s)
			}
		}
		if len(w) < 2 {
			continue
		}
		verifrt.Assert(k < len(calls) && calls[k].ts == t, "an evaluation step with two or more samples in its window is not evaluated (or steps are out of order)")
		if k < len(calls) && calls[k].ts == t {
			verifrt.Assert(calls[k].prev == w[len(w)-2] && calls[k].last == w[len(w)-1], "an evaluation step is not evaluated on the last two samples of its window")
		}
		k++
	}
	verifrt.Assert(k == len(calls), "an evaluation step is evaluated twice, or one with fewer than two samples is evaluated")
	verifrt.Reach("end")
}
