//go:build verif

package meta

import (
	originql "github.com/influxdata/influxql"
	"github.com/openGemini/openGemini/lib/util/lifted/influx/influxql"
	"github.com/openGemini/openGemini/lib/verifrt"
)

func verifC19Mst(db string) *influxql.Measurement {
	return &influxql.Measurement{Database: db, RetentionPolicy: "rp", Name: "m"}
}

func verifC19Sub(db string) *influxql.SubQuery {
	return &influxql.SubQuery{Statement: &influxql.SelectStatement{Sources: influxql.Sources{verifC19Mst(db)}}}
}

func verifC19Allows(p originql.Privilege, need originql.Privilege) bool {
	return p == need || p == originql.AllPrivileges
}

// VerifC19ReadPrivileges: a user who is neither administrator nor rw-user, with an arbitrary privilege (none,
// read, write, all) on each of two databases, runs a SELECT whose sources name database 1 and database 2 in
// every position the language allows (plain FROM, subquery, either side of a JOIN, either side of a UNION).
// The query is authorised only if the user may read every database it reads; a grant on one database never
// makes up for the other.
func VerifC19ReadPrivileges() {
	privs := []originql.Privilege{originql.NoPrivileges, originql.ReadPrivilege, originql.WritePrivilege, originql.AllPrivileges}
	hasA, hasB := verifrt.Bool("grantA"), verifrt.Bool("grantB")
	pa, pb := privs[verifrt.Choose("privA", 4)], privs[verifrt.Choose("privB", 4)]
	u := &UserInfo{Name: "u", Privileges: map[string]originql.Privilege{}}
	if hasA {
		u.Privileges["a"] = pa
	}
	if hasB {
		u.Privileges["b"] = pb
	}
	var src influxql.Source
	switch verifrt.Choose("shape", 6) {
	case 0:
		src = verifC19Mst("b")
	case 1:
		src = verifC19Sub("b")
	case 2:
		src = &influxql.Join{LSrc: verifC19Sub("a"), RSrc: verifC19Sub("b")}
	case 3:
		src = &influxql.Join{LSrc: verifC19Sub("b"), RSrc: verifC19Sub("a")}
	case 4:
		src = &influxql.Union{LSrc: verifC19Sub("a"), RSrc: verifC19Sub("b")}
	default:
		src = &influxql.Union{LSrc: verifC19Sub("b"), RSrc: verifC19Sub("a")}
	}
	stmt := &influxql.SelectStatement{Sources: influxql.Sources{verifC19Mst("a"), src}}
	q := &influxql.Query{Statements: influxql.Statements{stmt}}
	err := u.AuthorizeQuery("a", q)
	mayA := hasA && verifC19Allows(pa, originql.ReadPrivilege)
	mayB := hasB && verifC19Allows(pb, originql.ReadPrivilege)
	if err == nil {
		verifrt.Assert(mayA && mayB, "a query reading two databases was authorised for a user who may not read both")
		verifrt.Reach("authorised")
	} else {
		verifrt.Assert(!(mayA && mayB), "a user who may read every database of the query was refused")
		verifrt.Reach("refused")
	}
	// writes: READ never authorises a write, and a grant on one database says nothing about the other
	verifrt.Assert(u.AuthorizeDatabase(originql.WritePrivilege, "b") == (hasB && verifC19Allows(pb, originql.WritePrivilege)), "write authorisation on a database does not follow the grant on that database")
	verifrt.Reach("end")
}
