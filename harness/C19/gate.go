//go:build verif

package httpd

import (
	"errors"
	"net/http"
	"net/url"
	"time"

	"github.com/agiledragon/gomonkey/v2"
	"github.com/golang-jwt/jwt/v5"
	"github.com/influxdata/influxdb/models"
	config2 "github.com/openGemini/openGemini/lib/config"
	"github.com/openGemini/openGemini/lib/obs"
	"github.com/openGemini/openGemini/lib/statisticsPusher/statistics"
	"github.com/openGemini/openGemini/lib/util/lifted/influx/httpd/config"
	"github.com/openGemini/openGemini/lib/util/lifted/influx/influxql"
	meta2 "github.com/openGemini/openGemini/lib/util/lifted/influx/meta"
	proto2 "github.com/openGemini/openGemini/lib/util/lifted/influx/meta/proto"
	"github.com/openGemini/openGemini/lib/verifrt"
)

// The error writer serialises with encoding/json (reflection); only its status code matters here.
//verif:stub (*github.com/openGemini/openGemini/lib/util/lifted/influx/httpd.Handler).httpError = verifC19HTTPError
//verif:stub github.com/golang-jwt/jwt/v5.Parse = verifC19JWTParse
//verif:stub (*github.com/openGemini/openGemini/lib/statisticsPusher/statistics.ItemInt64).Incr = verifC19Incr

var verifC19Status int

func verifC19Incr(i *statistics.ItemInt64) {}

func verifC19HTTPError(h *Handler, w http.ResponseWriter, errmsg string, code int) { w.WriteHeader(code) }

// VerifNativeSetup installs the token-library stub natively as well, so that replays consume the same inputs.
func VerifNativeSetup() { gomonkey.ApplyFunc(jwt.Parse, verifC19JWTParse) }

// verifC19JWTParse: the token library either rejects the token or returns a parsed token whose validity flag,
// expiry claim and username claim are arbitrary.
func verifC19JWTParse(tokenString string, keyFunc jwt.Keyfunc, options ...jwt.ParserOption) (*jwt.Token, error) {
	if verifrt.Bool("jwtErr") {
		return nil, errors.New("token rejected")
	}
	claims := jwt.MapClaims{}
	if verifrt.Bool("hasExp") {
		claims["exp"] = float64(verifrt.Choose("exp", 2)) // 0 or 1
	}
	if verifrt.Bool("hasUser") {
		claims["username"] = verifrt.String("jwtUser", verifrt.Choose("jwtUserLen", 2))
	}
	return &jwt.Token{Valid: verifrt.Bool("jwtValid"), Claims: claims}, nil
}

// verifC19Meta: the meta client, with arbitrary answers. It remembers what it was asked.
type verifC19Meta struct {
	admin    bool
	authOK   bool // Authenticate succeeds
	userOK   bool // User(name) finds the user
	userNil  bool // ... but returns a nil user without error
	account  *meta2.UserInfo
	askedU   string
	askedP   string
	authCall int
	userCall int
}

func (m *verifC19Meta) AdminUserExists() bool { return m.admin }
func (m *verifC19Meta) Authenticate(username, password string) (meta2.User, error) {
	m.authCall++
	m.askedU, m.askedP = username, password
	if m.authOK {
		return m.account, nil
	}
	return nil, meta2.ErrAuthenticate
}
func (m *verifC19Meta) User(username string) (meta2.User, error) {
	m.userCall++
	m.askedU = username
	if !m.userOK {
		return nil, meta2.ErrUserNotFound
	}
	if m.userNil {
		return nil, nil
	}
	return m.account, nil
}
func (m *verifC19Meta) Database(name string) (*meta2.DatabaseInfo, error) { return nil, nil }
func (m *verifC19Meta) Measurement(database string, rpName string, mstName string) (*meta2.MeasurementInfo, error) {
	return nil, nil
}
func (m *verifC19Meta) ShowShards(db string, rp string, mst string) models.Rows { return nil }
func (m *verifC19Meta) TagArrayEnabled(db string) bool                          { return false }
func (m *verifC19Meta) DataNode(id uint64) (*meta2.DataNode, error)             { return nil, nil }
func (m *verifC19Meta) DataNodes() ([]meta2.DataNode, error)                    { return nil, nil }
func (m *verifC19Meta) SqlNodes() ([]meta2.DataNode, error)                     { return nil, nil }
func (m *verifC19Meta) CreateDatabase(name string, enableTagArray bool, replicaN uint32, options *obs.ObsOptions) (*meta2.DatabaseInfo, error) {
	return nil, nil
}
func (m *verifC19Meta) Databases() map[string]*meta2.DatabaseInfo { return nil }
func (m *verifC19Meta) MarkDatabaseDelete(name string) error      { return nil }
func (m *verifC19Meta) Measurements(database string, ms influxql.Measurements) ([]string, error) {
	return nil, nil
}
func (m *verifC19Meta) CreateStreamPolicy(info *meta2.StreamInfo) error { return nil }
func (m *verifC19Meta) CreateStreamMeasurement(info *meta2.StreamInfo, src, dest *influxql.Measurement, stmt *influxql.SelectStatement) error {
	return nil
}
func (m *verifC19Meta) DropStream(name string) error { return nil }
func (m *verifC19Meta) CreateRetentionPolicy(database string, spec *meta2.RetentionPolicySpec, makeDefault bool) (*meta2.RetentionPolicyInfo, error) {
	return nil, nil
}
func (m *verifC19Meta) RetentionPolicy(database, name string) (*meta2.RetentionPolicyInfo, error) {
	return nil, nil
}
func (m *verifC19Meta) DBPtView(database string) (meta2.DBPtInfos, error)       { return nil, nil }
func (m *verifC19Meta) MarkRetentionPolicyDelete(database, name string) error   { return nil }
func (m *verifC19Meta) CreateMeasurement(database, retentionPolicy, mst string, shardKey *meta2.ShardKeyInfo, numOfShards int32, indexR *influxql.IndexRelation, engineType config2.EngineType,
	colStoreInfo *meta2.ColStoreInfo, schemaInfo []*proto2.FieldSchema, options *meta2.Options) (*meta2.MeasurementInfo, error) {
	return nil, nil
}
func (m *verifC19Meta) UpdateMeasurement(db, rp, mst string, options *meta2.Options) error { return nil }
func (m *verifC19Meta) GetShardGroupByTimeRange(repoName, streamName string, min, max time.Time) ([]*meta2.ShardGroupInfo, error) {
	return nil, nil
}
func (m *verifC19Meta) RevertRetentionPolicyDelete(database, name string) error { return nil }

type verifC19Writer struct{ h http.Header }

func (w *verifC19Writer) Header() http.Header         { return w.h }
func (w *verifC19Writer) Write(b []byte) (int, error) { return len(b), nil }
func (w *verifC19Writer) WriteHeader(statusCode int)  { verifC19Status = statusCode }

// VerifC19Gate: the authenticate wrapper with authentication required. The credentials arrive as URL
// parameters, a Token header, a Basic header or a Bearer header with arbitrary short contents; the meta
// client and the token library answer arbitrarily. The wrapped handler runs only for a request whose
// credentials were accepted by the meta client, and with exactly the account the meta client returned;
// otherwise the response is 401 (or 500 for malformed token claims) and the handler does not run.
func VerifC19Gate() {
	mc := &verifC19Meta{admin: true, authOK: verifrt.Bool("authOK"), userOK: verifrt.Bool("userOK"), userNil: verifrt.Bool("userNil"),
		account: &meta2.UserInfo{Name: "acct"}}
	h := &Handler{Config: &config.Config{}}
	h.MetaClient = mc
	if verifrt.Bool("secret") {
		h.Config.SharedSecret = "s"
	}
	r := &http.Request{Header: http.Header{}, URL: &url.URL{}}
	u := verifrt.String("u", verifrt.Choose("uLen", 3))
	p := verifrt.String("p", verifrt.Choose("pLen", 3))
	transport := verifrt.Choose("transport", 5)
	switch transport {
	case 0: // nothing
	case 1: // URL parameters (bytes that need no escaping)
		for i := 0; i < len(u); i++ {
			verifrt.Assume(u[i] >= 'a' && u[i] <= 'z')
		}
		for i := 0; i < len(p); i++ {
			verifrt.Assume(p[i] >= 'a' && p[i] <= 'z')
		}
		r.URL.RawQuery = "u=" + u + "&p=" + p
	case 2: // "Token user:password": the format cannot carry a colon in the user name or a space anywhere
		for i := 0; i < len(u); i++ {
			verifrt.Assume(u[i] != ':' && u[i] != ' ')
		}
		for i := 0; i < len(p); i++ {
			verifrt.Assume(p[i] != ' ')
		}
		r.Header.Set("Authorization", "Token "+u+":"+p)
	case 3:
		r.Header.Set("Authorization", "Bearer "+u)
	case 4: // arbitrary header text
		r.Header.Set("Authorization", verifrt.String("hdr", 1+verifrt.Choose("hdrLen", 6)))
	}
	called := false
	var got meta2.User
	inner := func(w http.ResponseWriter, r *http.Request, user meta2.User) { called, got = true, user }
	verifC19Status = 0
	authenticate(inner, h, true).ServeHTTP(&verifC19Writer{h: http.Header{}}, r)
	if called {
		verifrt.Assert(verifC19Status == 0, "handler ran although an error response was written")
		verifrt.Assert(mc.authCall+mc.userCall > 0, "handler ran without the meta client being asked about any credentials")
		verifrt.Assert(got != nil, "handler ran without an authenticated account")
		ui, ok := got.(*meta2.UserInfo)
		verifrt.Assert(ok && ui == mc.account, "handler ran with an account other than the one the meta client returned")
		if mc.authCall > 0 {
			verifrt.Assert(mc.authOK, "handler ran although the meta client rejected the password")
			verifrt.Assert(mc.askedU != "", "handler ran for an empty user name")
			if transport == 1 || transport == 2 {
				verifrt.Assert(mc.askedU == u && mc.askedP == p, "the meta client was asked about other credentials than the request carried")
			}
		} else {
			verifrt.Assert(mc.userOK && !mc.userNil, "handler ran although the token's user is unknown")
			verifrt.Assert(h.Config.SharedSecret != "", "a bearer token was accepted although bearer authentication is disabled (blank shared secret)")
		}
		verifrt.Reach("admitted")
	} else {
		verifrt.Assert(verifC19Status == http.StatusUnauthorized || verifC19Status == http.StatusInternalServerError, "request neither admitted nor answered with an authentication error")
		verifrt.Reach("rejected")
	}
	verifrt.Reach("end")
}

// VerifC19GateBootstrap: without an administrator the documented bootstrap exception applies and nothing else:
// the handler runs, with no account.
func VerifC19GateBootstrap() {
	mc := &verifC19Meta{admin: false, authOK: verifrt.Bool("authOK")}
	h := &Handler{Config: &config.Config{}}
	h.MetaClient = mc
	r := &http.Request{Header: http.Header{}, URL: &url.URL{}}
	called := false
	var got meta2.User
	inner := func(w http.ResponseWriter, r *http.Request, user meta2.User) { called, got = true, user }
	authenticate(inner, h, true).ServeHTTP(&verifC19Writer{h: http.Header{}}, r)
	verifrt.Assert(called && got == nil, "bootstrap exception changed")
	verifrt.Reach("end")
}
