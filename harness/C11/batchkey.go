//go:build verif

package coordinator

import (
	"bytes"
	"time"

	"github.com/openGemini/openGemini/lib/config"
	"github.com/openGemini/openGemini/lib/logger"
	"github.com/openGemini/openGemini/lib/util/lifted/influx/influxql"
	meta2 "github.com/openGemini/openGemini/lib/util/lifted/influx/meta"
	"github.com/openGemini/openGemini/lib/util/lifted/vm/protoparser/influx"
	"github.com/openGemini/openGemini/lib/verifrt"
)

// verifC11PWMeta: one shard group with two shards covering every timestamp, both shards alive.
type verifC11PWMeta struct {
	PWMetaClient
	sg *meta2.ShardGroupInfo
}

func (m *verifC11PWMeta) CreateShardGroup(database, policy string, timestamp time.Time, version uint32, engineType config.EngineType) (*meta2.ShardGroupInfo, error) {
	return m.sg, nil
}
func (m *verifC11PWMeta) GetAliveShards(database string, sgi *meta2.ShardGroupInfo, isRead bool) []int {
	return []int{0, 1}
}

// VerifC11BatchShardKey: rows of two measurements with different shard keys (hash on tag h, hash on tag r)
// follow each other in one write batch and fall into the same shard group. For either order of the two
// rows and arbitrary tag values, each row's shard key is built from the shard-key tags of its own
// measurement (updateShardGroupAndShardKey with the per-batch caches of writeHelper and the ingestion
// context) - so the shard a point lands in is a function of the point, not of its neighbours in the batch.
func VerifC11BatchShardKey() {
	sg := &meta2.ShardGroupInfo{ID: 1, StartTime: time.Unix(0, 0), EndTime: time.Unix(1<<40, 0), EngineType: config.TSSTORE,
		Shards: []meta2.ShardInfo{{ID: 10, Owners: []uint32{0}}, {ID: 11, Owners: []uint32{1}}}}
	w := &PointsWriter{MetaClient: &verifC11PWMeta{sg: sg}, logger: logger.NewLogger(0)}
	mstA := &meta2.MeasurementInfo{Name: "ma_0000", EngineType: config.TSSTORE, ShardKeys: []meta2.ShardKeyInfo{{ShardKey: []string{"h"}, Type: influxql.HASH, ShardGroup: 1}}}
	mstB := &meta2.MeasurementInfo{Name: "mb_0000", EngineType: config.TSSTORE, ShardKeys: []meta2.ShardKeyInfo{{ShardKey: []string{"r"}, Type: influxql.HASH, ShardGroup: 1}}}
	mstA.SetoriginName("ma")
	mstB.SetoriginName("mb")
	ctx := &injestionCtx{db: &meta2.DatabaseInfo{Name: "db"}}
	wh := ctx.getWriteHelper(w)

	hv, rv := verifrt.String("h", 1), verifrt.String("r", 1)
	verifrt.Assume(hv[0] >= 'a' && hv[0] <= 'z' && rv[0] >= 'a' && rv[0] <= 'z')
	order := []*meta2.MeasurementInfo{mstA, mstB}
	if verifrt.Bool("bFirst") {
		order = []*meta2.MeasurementInfo{mstB, mstA}
	}
	if verifrt.Bool("sameTwice") {
		order = append(order, order[1]) // a third row of the same measurement as the second: the cache hit path
	}
	for i, mst := range order {
		r := &influx.Row{Name: mst.OriginName(), Timestamp: int64(1000 + i), Tags: influx.PointTags{{Key: "h", Value: hv}, {Key: "r", Value: rv}}}
		// what routeAndMapOriginRows does before the call
		wh.sameMeasurement(r.Name)
		ctx.ms, wh.preMst = mst, mst
		r.Name = mst.Name
		err, sh, pErr := w.updateShardGroupAndShardKey("db", "rp", r, ctx, false, nil, 0, false)
		verifrt.Assert(err == nil && pErr == nil && sh != nil, "a row carrying all shard-key tags was not routed")
		// after routing, the row's shard key is "<key>=<value>" of its own measurement's shard-key tag (the measurement prefix is cut off)
		want := "h=" + hv
		if mst == mstB {
			want = "r=" + rv
		}
		verifrt.Assert(bytes.Contains(r.ShardKey, []byte(want)), "a row's shard key is not built from the shard-key tags of its own measurement")
		other := "r=" + rv
		if mst == mstB {
			other = "h=" + hv
		}
		verifrt.Assert(!bytes.Contains(r.ShardKey, []byte(other)), "a row's shard key is built from the shard-key tags of its neighbour's measurement")
	}
	verifrt.Reach("end")
}
