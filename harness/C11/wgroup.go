//go:build verif

package coordinator

import (
	"time"

	"github.com/openGemini/openGemini/lib/config"
	meta2 "github.com/openGemini/openGemini/lib/util/lifted/influx/meta"
	"github.com/openGemini/openGemini/lib/verifrt"
)

// verifC11Meta answers CreateShardGroup the way the meta service does: with the group of the aligned
// one-hour span that contains the timestamp.
type verifC11Meta struct {
	ComMetaClient
	calls int
	span  int64
}

const verifC11Span = int64(3600)

func (m *verifC11Meta) CreateShardGroup(database, policy string, timestamp time.Time, version uint32, engineType config.EngineType) (*meta2.ShardGroupInfo, error) {
	m.calls++
	start := m.span * verifC11Span // the harness knows which aligned span the timestamp lies in
	return &meta2.ShardGroupInfo{ID: uint64(start), StartTime: time.Unix(start, 0), EndTime: time.Unix(start+verifC11Span, 0), EngineType: engineType}, nil
}

// VerifC11WriteGroup: the write path's choice of the shard group for a row (createShardGroup, with its
// fast path that re-uses the group of the previous row of the batch): whatever group the previous row
// left cached, the group chosen for a timestamp is one whose half-open span [start, end) contains it -
// in particular a row exactly on the end of the cached group goes to the next group.
func VerifC11WriteGroup() {
	span, off, nsec := verifrt.Int64("span"), verifrt.Int64("offset"), verifrt.Int64("nsec")
	verifrt.Assume(span >= -(1<<21) && span <= 1<<21 && off >= 0 && off < verifC11Span && nsec >= 0 && nsec < 1000000000)
	sec := span*verifC11Span + off
	ts := time.Unix(sec, nsec)
	var pre *meta2.ShardGroupInfo
	if verifrt.Bool("cached") {
		// the group of the previous row: an aligned span anywhere
		k := verifrt.Int64("prevSpan")
		verifrt.Assume(k >= -(1<<21) && k <= 1<<21)
		pre = &meta2.ShardGroupInfo{ID: 1, StartTime: time.Unix(k*verifC11Span, 0), EndTime: time.Unix((k+1)*verifC11Span, 0), EngineType: config.TSSTORE}
	}
	client := &verifC11Meta{span: span}
	sg, same, err := createShardGroup("db", "rp", client, &pre, ts, 0, config.TSSTORE)
	verifrt.Assert(err == nil && sg != nil, "no shard group for a writable timestamp")
	verifrt.Assert(!ts.Before(sg.StartTime) && ts.Before(sg.EndTime), "the row goes to a shard group whose time span does not contain its timestamp")
	verifrt.Assert(pre == sg, "the chosen group is not remembered for the next row")
	if same {
		verifrt.Assert(client.calls == 0, "fast path reported although the meta client was asked")
		verifrt.Reach("fast-path")
	}
	if nsec == 0 && off == 0 {
		verifrt.Reach("on-boundary")
	}
	verifrt.Reach("end")
}
