//go:build verif

package meta

import (
	"time"

	"github.com/openGemini/openGemini/lib/util/lifted/influx/influxql"
	"github.com/openGemini/openGemini/lib/util/lifted/vm/protoparser/influx"
	"github.com/openGemini/openGemini/lib/verifrt"
)

//verif:stub github.com/cespare/xxhash/v2.Sum64 = verifC11Hash

// verifC11Hash: the shard hash is an uninterpreted function of the key bytes, so the result holds
// for whatever the hash function is.
func verifC11Hash(b []byte) uint64 { return verifrt.UF64("xxhash", b) }

type verifC11Row struct {
	h, r string
	u    int64
}

// verifC11Atom builds one atom of the condition and returns (AST, truth on the row).
func verifC11Atom(name string, row *verifC11Row, vlen int) (influxql.Expr, bool) {
	switch verifrt.Choose(name+"Kind", 5) {
	case 0: // h = 'lit'
		lit := verifrt.String(name+"Lit", vlen)
		return &influxql.BinaryExpr{Op: influxql.EQ, LHS: &influxql.VarRef{Val: "h", Type: influxql.Tag}, RHS: &influxql.StringLiteral{Val: lit}}, row.h == lit
	case 1: // r = 'lit'
		lit := verifrt.String(name+"Lit", vlen)
		return &influxql.BinaryExpr{Op: influxql.EQ, LHS: &influxql.VarRef{Val: "r", Type: influxql.Tag}, RHS: &influxql.StringLiteral{Val: lit}}, row.r == lit
	case 2: // h != 'lit'
		lit := verifrt.String(name+"Lit", vlen)
		return &influxql.BinaryExpr{Op: influxql.NEQ, LHS: &influxql.VarRef{Val: "h", Type: influxql.Tag}, RHS: &influxql.StringLiteral{Val: lit}}, row.h != lit
	case 3: // u > lit
		lit := verifrt.Int64(name + "Num")
		return &influxql.BinaryExpr{Op: influxql.GT, LHS: &influxql.VarRef{Val: "u", Type: influxql.Integer}, RHS: &influxql.IntegerLiteral{Val: lit}}, row.u > lit
	default: // time >= lit : always true for the row under test (time is handled by group selection)
		lit := verifrt.Int64(name + "Num")
		return &influxql.BinaryExpr{Op: influxql.GTE, LHS: &influxql.VarRef{Val: "time"}, RHS: &influxql.IntegerLiteral{Val: lit}}, true
	}
}

// verifC11Cond builds a condition tree of a shape the parser produces (grouping that differs from
// operator precedence is carried by ParenExpr nodes, exactly as the parser and Reduce keep it).
func verifC11Cond(row *verifC11Row, vlen int, depth3 bool) (influxql.Expr, bool) {
	and := func(l, r influxql.Expr) influxql.Expr { return &influxql.BinaryExpr{Op: influxql.AND, LHS: l, RHS: r} }
	or := func(l, r influxql.Expr) influxql.Expr { return &influxql.BinaryExpr{Op: influxql.OR, LHS: l, RHS: r} }
	paren := func(e influxql.Expr) influxql.Expr { return &influxql.ParenExpr{Expr: e} }
	a, ta := verifC11Atom("a", row, vlen)
	shapes := 3
	if depth3 {
		shapes = 9
	}
	sh := verifrt.Choose("shape", shapes)
	if sh == 0 {
		return a, ta
	}
	b, tb := verifC11Atom("b", row, vlen)
	switch sh {
	case 1:
		return and(a, b), ta && tb
	case 2:
		return or(a, b), ta || tb
	}
	c, tc := verifC11Atom("c", row, vlen)
	switch sh {
	case 3: // a AND b OR c
		return or(and(a, b), c), (ta && tb) || tc
	case 4: // a OR b AND c
		return or(a, and(b, c)), ta || (tb && tc)
	case 5: // a OR b OR c
		return or(or(a, b), c), ta || tb || tc
	case 6: // a AND b AND c
		return and(and(a, b), c), ta && tb && tc
	case 7: // (a OR b) AND c
		return and(paren(or(a, b)), c), (ta || tb) && tc
	default: // a AND (b OR c)
		return and(a, paren(or(b, c))), ta && (tb || tc)
	}
}

func verifC11Setup(nShards int) (*ShardGroupInfo, *MeasurementInfo, []int) {
	sg := &ShardGroupInfo{ID: 1}
	alive := make([]int, nShards)
	for i := 0; i < nShards; i++ {
		sg.Shards = append(sg.Shards, ShardInfo{ID: uint64(10 + i)})
		alive[i] = i
	}
	schema := CleanSchema{"h": SchemaVal{Typ: influx.Field_Type_Tag}, "r": SchemaVal{Typ: influx.Field_Type_Tag}, "u": SchemaVal{Typ: influx.Field_Type_Int}}
	mst := &MeasurementInfo{Name: "m_0000", Schema: &schema}
	return sg, mst, alive
}

// verifC11HashRoute: a row that satisfies the condition is stored in a shard the query consults.
func verifC11HashRoute(keys []string) {
	vlen := 1
	depth3 := verifrt.Tier() > 0
	nShards := verifrt.Choose("shards", 3) + 2 // 2..4
	sg, mst, alive := verifC11Setup(nShards)
	row := &verifC11Row{h: verifrt.String("h", vlen), r: verifrt.String("r", vlen), u: verifrt.Int64("u")}
	ski := &ShardKeyInfo{ShardKey: keys, Type: HASH}

	// write side: exactly the coordinator's sequence for a row-store HASH measurement
	r := &influx.Row{Name: mst.Name, Tags: influx.PointTags{{Key: "h", Value: row.h}, {Key: "r", Value: row.r}}}
	err := r.UnmarshalShardKeyByTag(ski.ShardKey)
	verifrt.Assert(err == nil, "row with all shard-key tags rejected")
	if len(ski.ShardKey) > 0 {
		r.ShardKey = r.ShardKey[len(r.Name)+1:]
	}
	dst := sg.ShardFor(HashID(r.ShardKey), alive)
	verifrt.Assert(dst != nil, "no destination shard")

	cond, truth := verifC11Cond(row, vlen, depth3)
	verifrt.Assume(truth)
	shards := sg.TargetShards(mst, ski, cond, alive)
	found := false
	for i := range shards {
		if shards[i].ID == dst.ID {
			found = true
		}
	}
	verifrt.Assert(found, "query skips the shard that holds a matching row")
	verifrt.Reach("end")
}

func VerifC11HashRouteOneKey() { verifC11HashRoute([]string{"h"}) }
func VerifC11HashRouteTwoKeys() { verifC11HashRoute([]string{"h", "r"}) }

// VerifC11RangeRoute: RANGE sharding. The destination is the shard whose [Min,Max) contains the row's
// shard key; the query side prunes with ContainPrefix.
func VerifC11RangeRoute() {
	vlen := 1
	sg, mst, alive := verifC11Setup(2)
	// two shards split at a symbolic boundary: shard0 = ["", B), shard1 = [B, "")
	bound := mst.Name + ",h=" + verifrt.String("bound", 1)
	sg.Shards[0].Min, sg.Shards[0].Max = "", bound
	sg.Shards[1].Min, sg.Shards[1].Max = bound, ""
	row := &verifC11Row{h: verifrt.String("h", vlen), r: verifrt.String("r", vlen), u: verifrt.Int64("u")}
	ski := &ShardKeyInfo{ShardKey: []string{"h"}, Type: RANGE}
	r := &influx.Row{Name: mst.Name, Tags: influx.PointTags{{Key: "h", Value: row.h}, {Key: "r", Value: row.r}}}
	err := r.UnmarshalShardKeyByTag(ski.ShardKey)
	verifrt.Assert(err == nil, "row with all shard-key tags rejected")
	dst := sg.DestShard(string(r.ShardKey))
	verifrt.Assert(dst != nil, "no destination shard for a RANGE row")
	n := 0
	for i := range sg.Shards {
		if sg.Shards[i].Contain(string(r.ShardKey)) {
			n++
		}
	}
	verifrt.Assert(n == 1, "row key contained in more or fewer than one range shard")
	cond, truth := verifC11Cond(row, vlen, verifrt.Tier() > 0)
	verifrt.Assume(truth)
	shards := sg.TargetShards(mst, ski, cond, alive)
	found := false
	for i := range shards {
		if shards[i].ID == dst.ID {
			found = true
		}
	}
	verifrt.Assert(found, "range query skips the shard that holds a matching row")
	verifrt.Reach("end")
}

// VerifC11GroupLookup: over a sorted list of disjoint groups, exactly one contains a timestamp inside the
// covered span, it is the one ShardGroupByTimestampAndEngineType returns, and every query range that
// includes the timestamp overlaps it.
func VerifC11GroupLookup() {
	b0 := verifrt.Int64("b0")
	d1 := verifrt.Int64("d1")
	d2 := verifrt.Int64("d2")
	verifrt.Assume(b0 >= -(1<<40) && b0 <= 1<<40)
	verifrt.Assume(d1 > 0 && d1 <= 1<<30 && d2 > 0 && d2 <= 1<<30)
	b1, b2 := b0+d1, b0+d1+d2
	rp := &RetentionPolicyInfo{Name: "rp", ShardGroups: []ShardGroupInfo{
		{ID: 1, StartTime: time.Unix(b0, 0), EndTime: time.Unix(b1, 0)},
		{ID: 2, StartTime: time.Unix(b1, 0), EndTime: time.Unix(b2, 0)},
	}}
	ts := verifrt.Int64("ts")
	tn := verifrt.Int64("tn")
	verifrt.Assume(ts >= b0 && ts < b2 && tn >= 0 && tn < 1000000000)
	t := time.Unix(ts, tn)
	n := 0
	for i := range rp.ShardGroups {
		if rp.ShardGroups[i].Contains(t) {
			n++
		}
	}
	verifrt.Assert(n == 1, "timestamp inside the covered span contained in != 1 group")
	g := rp.ShardGroupByTimestampAndEngineType(t, 0)
	verifrt.Assert(g != nil && g.Contains(t), "group lookup by timestamp missed the containing group")
	// any query range [lo,hi] with lo <= t <= hi overlaps that group
	lo := verifrt.Int64("lo")
	hi := verifrt.Int64("hi")
	verifrt.Assume(lo >= -(1<<41) && hi <= 1<<41 && lo <= ts && ts < hi)
	verifrt.Assert(g.Overlaps(time.Unix(lo, 0), time.Unix(hi, 0)), "group holding t does not overlap a range containing t")
	verifrt.Reach("end")
}
