//go:build verif

package record

import (
	"github.com/openGemini/openGemini/lib/util/lifted/vm/protoparser/influx"
	"github.com/openGemini/openGemini/lib/verifrt"
)

type verifC02Row struct {
	t     int64
	a     int64
	aNull bool
	b     float64
	bNull bool
}

var verifC02Schema = []Field{
	{Name: "a", Type: influx.Field_Type_Int},
	{Name: "b", Type: influx.Field_Type_Float},
	{Name: TimeField, Type: influx.Field_Type_Int},
}

func verifC02Build(rows []verifC02Row) *Record {
	rec := NewRecordBuilder(append([]Field(nil), verifC02Schema...))
	for _, r := range rows {
		if r.aNull {
			rec.ColVals[0].AppendIntegerNull()
		} else {
			rec.ColVals[0].AppendInteger(r.a)
		}
		if r.bNull {
			rec.ColVals[1].AppendFloatNull()
		} else {
			rec.ColVals[1].AppendFloat(r.b)
		}
		rec.AppendTime(r.t)
	}
	return rec
}

// verifC02Time: any timestamp the write path accepts (models.CheckTime: MinNanoTime..MaxNanoTime).
func verifC02Time(name string) int64 {
	t := verifrt.Int64(name)
	verifrt.Assume(t >= -9223372036854775806 && t <= 9223372036854775806)
	return t
}

func verifC02Rows(name string, n int) []verifC02Row {
	rows := make([]verifC02Row, n)
	for i := range rows {
		rows[i] = verifC02Row{t: verifC02Time(name + "t"), a: verifrt.Int64(name + "a"), aNull: verifrt.Bool(name + "an"),
			b: verifrt.Float64(name + "b"), bNull: verifrt.Bool(name + "bn")}
	}
	return rows
}

// verifC02Expect folds rows (in order) for time T: a later non-null value replaces, a null keeps.
func verifC02Expect(rows []verifC02Row, T int64) (a int64, aNull bool, b float64, bNull bool, present bool) {
	aNull, bNull = true, true
	for i := range rows {
		if rows[i].t != T {
			continue
		}
		present = true
		if !rows[i].aNull {
			a, aNull = rows[i].a, false
		}
		if !rows[i].bNull {
			b, bNull = rows[i].b, false
		}
	}
	return
}

func verifC02CheckResult(out *Record, rows []verifC02Row, descending bool, what string) {
	times := out.Times()
	n := len(times)
	verifrt.Assert(out.ColVals[0].Len == n && out.ColVals[1].Len == n, what+": column lengths differ from the time column")
	for i := 1; i < n; i++ {
		if descending {
			verifrt.Assert(times[i-1] > times[i], what+": times not strictly descending")
		} else {
			verifrt.Assert(times[i-1] < times[i], what+": times not strictly ascending")
		}
	}
	for i := range rows {
		found := false
		for j := 0; j < n; j++ {
			if times[j] == rows[i].t {
				found = true
			}
		}
		verifrt.Assert(found, what+": a written timestamp is missing from the result")
	}
	for j := 0; j < n; j++ {
		a, aNull, b, bNull, present := verifC02Expect(rows, times[j])
		verifrt.Assert(present, what+": result holds a timestamp that was never written")
		ga, gaOK := out.ColVals[0].IntegerValue(j)
		verifrt.Assert(gaOK == aNull, what+": integer field null flag differs from last-write-wins")
		if !aNull {
			verifrt.Assert(ga == a, what+": integer field differs from last-write-wins")
		}
		gb, gbOK := out.ColVals[1].FloatValue(j)
		verifrt.Assert(gbOK == bNull, what+": float field null flag differs from last-write-wins")
		if !bNull {
			verifrt.Assert(verifrt.DeepEqual(gb, b), what+": float field differs from last-write-wins")
		}
	}
}

// VerifC02Sort: sorting a written batch yields the last-write-wins fold of its rows, ascending, no duplicate times.
func VerifC02Sort() {
	n := verifrt.Choose("n", 3+verifrt.Tier()) + 1
	rows := verifC02Rows("r", n)
	rec := verifC02Build(rows)
	h := NewColumnSortHelper()
	out := h.Sort(rec)
	verifC02CheckResult(out, rows, false, "sort")
	verifrt.Reach("end")
}

func verifC02Ascending(rows []verifC02Row) {
	for i := 1; i < len(rows); i++ {
		verifrt.Assume(rows[i-1].t < rows[i].t)
	}
}

// VerifC02Merge: merging a newer and an older sorted record = old rows overwritten field-wise by new rows.
func VerifC02Merge() {
	nn := verifrt.Choose("nn", 2+verifrt.Tier()) + 1
	no := verifrt.Choose("no", 2+verifrt.Tier()) + 1
	newRows := verifC02Rows("n", nn)
	oldRows := verifC02Rows("o", no)
	verifC02Ascending(newRows)
	verifC02Ascending(oldRows)
	newRec, oldRec := verifC02Build(newRows), verifC02Build(oldRows)
	out := &Record{} // callers merge into an empty record (engine/mutable/table.go, engine/tsm_merge_cursor.go)
	out.MergeRecord(newRec, oldRec)
	all := append(append([]verifC02Row(nil), oldRows...), newRows...) // old first, new overrides
	verifC02CheckResult(out, all, false, "merge")
	verifrt.Reach("end")
}

// VerifC02SortLong: a series buffer of 16 in-order rows followed by one overwrite of an arbitrary earlier
// timestamp (times are concrete here, values arbitrary): after sort and de-duplication the overwritten row
// carries the later value. Sorting must be stable for buffers of this size too (library sorts switch
// algorithm above a dozen elements).
func VerifC02SortLong() {
	const n = 16
	rows := make([]verifC02Row, 0, n+1)
	for i := 0; i < n; i++ {
		rows = append(rows, verifC02Row{t: int64(10 * i), a: verifrt.Int64("a"), bNull: true})
	}
	k := verifrt.Choose("overwrite", n)
	rows = append(rows, verifC02Row{t: int64(10 * k), a: verifrt.Int64("late"), bNull: true})
	rec := verifC02Build(rows)
	out := NewColumnSortHelper().Sort(rec)
	verifrt.Assert(out.RowNums() == n, "sort/dedup returns a different number of rows than distinct timestamps")
	times := out.Times()
	for i := 0; i < n; i++ {
		verifrt.Assert(times[i] == int64(10*i), "rows are not in time order after the sort")
		v, isNil := out.ColVals[0].IntegerValue(i)
		want := rows[i].a
		if i == k {
			want = rows[n].a
		}
		verifrt.Assert(!isNil && v == want, "an overwritten row does not carry the later value after sort and de-duplication")
	}
	verifrt.Reach("end")
}
