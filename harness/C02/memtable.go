//go:build verif

package mutable

import (
	"math"

	"github.com/openGemini/openGemini/lib/config"
	"github.com/openGemini/openGemini/lib/record"
	"github.com/openGemini/openGemini/lib/util"
	"github.com/openGemini/openGemini/lib/util/lifted/vm/protoparser/influx"
	"github.com/openGemini/openGemini/lib/verifrt"
)

type verifC02Write struct {
	t          int64
	hasA, hasB bool
	a, b       float64
}

// VerifC02MemTable: rows written to one series of the in-memory table (the write path's
// CreateMsInfo / CreateChunk / appendFields) and read back through MemTable.values for an arbitrary time
// range, ascending or descending, with the full or a partial field list, equal the last-write-wins replay
// of the writes: one row per timestamp in range, each field carrying the value of the last write that
// carried it, sorted by time. Late rows, repeated timestamps and rows with a subset of the fields included.
func VerifC02MemTable() {
	n := 1 + verifrt.Choose("n", 2+verifrt.Tier())
	table := NewMemTable(config.TSSTORE)
	imp := table.MTable.(*tsMemTableImpl)
	ws := make([]verifC02Write, n)
	const sid = 7
	for i := range ws {
		w := &ws[i]
		w.t = verifrt.Int64("t")
		shape := verifrt.Choose("fields", 3) // {a}, {b}, {a,b}
		w.hasA, w.hasB = shape != 1, shape != 0
		var fields []influx.Field
		if w.hasA {
			w.a = verifrt.Float64("a")
			fields = append(fields, influx.Field{Key: "a", NumValue: w.a, Type: influx.Field_Type_Float})
		}
		if w.hasB {
			w.b = verifrt.Float64("b")
			fields = append(fields, influx.Field{Key: "b", NumValue: w.b, Type: influx.Field_Type_Float})
		}
		row := influx.Row{Name: "m", Timestamp: w.t, Fields: fields, PrimaryId: sid}
		msInfo := table.CreateMsInfo("m", &row, nil)
		chunk, _ := msInfo.CreateChunk(sid)
		_, err := imp.appendFields(msInfo, chunk, w.t, fields)
		verifrt.Assert(err == nil, "an acknowledged-shape write was rejected by the in-memory table")
	}
	min, max := verifrt.Int64("min"), verifrt.Int64("max")
	verifrt.Assume(min <= max)
	asc := verifrt.Bool("ascending")
	schema := record.Schemas{{Name: "a", Type: influx.Field_Type_Float}, {Name: "b", Type: influx.Field_Type_Float}, {Name: record.TimeField, Type: influx.Field_Type_Int}}
	wantA := true
	if verifrt.Choose("projection", 2) == 1 {
		schema, wantA = schema[1:], false
	}
	rec := table.values("m", sid, util.TimeRange{Min: min, Max: max}, schema, asc)

	// last-write-wins model: the value of field f at the time of write i is that of the last write at that time carrying f
	latest := func(i int, isA bool) (float64, bool) {
		v, ok := 0.0, false
		for j := range ws {
			if ws[j].t != ws[i].t {
				continue
			}
			if isA && ws[j].hasA {
				v, ok = ws[j].a, true
			}
			if !isA && ws[j].hasB {
				v, ok = ws[j].b, true
			}
		}
		return v, ok
	}
	var times []int64
	if rec != nil {
		times = rec.Times()
		verifrt.Assert(len(times) > 0, "an empty record was returned instead of none")
	}
	ai, bi := -1, -1
	if rec != nil {
		ai, bi = rec.Schema.FieldIndex("a"), rec.Schema.FieldIndex("b")
		verifrt.Assert(bi >= 0 && (ai >= 0) == wantA, "the returned record does not carry the requested fields")
	}
	for k, t := range times {
		verifrt.Assert(t >= min && t <= max, "a row outside the time range was returned")
		if k > 0 {
			verifrt.Assert(asc && t > times[k-1] || !asc && t < times[k-1], "rows are not sorted by time, or a timestamp is returned twice")
		}
		src := -1
		for i := range ws {
			if ws[i].t == t {
				src = i
			}
		}
		verifrt.Assert(src >= 0, "a row was returned at a time nothing was written at")
		if src < 0 {
			continue
		}
		if wantA {
			v, ok := latest(src, true)
			verifrt.Assert(rec.ColVals[ai].IsNil(k) == !ok, "a field that was (not) written reads back as (not) null")
			if ok && !rec.ColVals[ai].IsNil(k) {
				got, _ := rec.ColVals[ai].FloatValue(k)
				verifrt.Assert(math.Float64bits(got) == math.Float64bits(v), "a field does not carry the value of the last write that carried it")
			}
		}
		v, ok := latest(src, false)
		verifrt.Assert(rec.ColVals[bi].IsNil(k) == !ok, "a field that was (not) written reads back as (not) null")
		if ok && !rec.ColVals[bi].IsNil(k) {
			got, _ := rec.ColVals[bi].FloatValue(k)
			verifrt.Assert(math.Float64bits(got) == math.Float64bits(v), "a field does not carry the value of the last write that carried it")
		}
	}
	// completeness: every written timestamp in range that has a requested field is returned
	for i := range ws {
		if ws[i].t < min || ws[i].t > max {
			continue
		}
		_, okA := latest(i, true)
		_, okB := latest(i, false)
		if !(okB || wantA && okA) {
			continue
		}
		found := false
		for _, t := range times {
			if t == ws[i].t {
				found = true
			}
		}
		verifrt.Assert(found, "an acknowledged write inside the time range is not returned")
		if i > 0 && ws[i].t < ws[0].t {
			verifrt.Reach("late-row-read")
		}
	}
	verifrt.Reach("end")
}
