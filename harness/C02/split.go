//go:build verif

package mutable

import (
	"github.com/openGemini/openGemini/lib/record"
	"github.com/openGemini/openGemini/lib/util/lifted/vm/protoparser/influx"
	"github.com/openGemini/openGemini/lib/verifrt"
)

// VerifC02FlushSplit: at flush a series' rows are split at the series' last flushed time: rows at or before
// it are late data (out-of-order file), rows after it go to the ordered file. Every row lands on exactly one
// side, unchanged and in order, and the ordered side holds only rows strictly newer than the last flushed
// time - otherwise two ordered files of the series would overlap in time.
func VerifC02FlushSplit() {
	n := 1 + verifrt.Choose("n", 3+verifrt.Tier())
	rec := record.NewRecordBuilder([]record.Field{{Name: "a", Type: influx.Field_Type_Int}, {Name: record.TimeField, Type: influx.Field_Type_Int}})
	times, vals, nulls := make([]int64, n), make([]int64, n), make([]bool, n)
	for i := 0; i < n; i++ {
		times[i], vals[i], nulls[i] = verifrt.Int64("t"), verifrt.Int64("a"), verifrt.Bool("null")
		if i > 0 {
			verifrt.Assume(times[i] > times[i-1]) // a flushed chunk is sorted and de-duplicated
		}
		if nulls[i] {
			rec.ColVals[0].AppendIntegerNull()
		} else {
			rec.ColVals[0].AppendInteger(vals[i])
		}
		rec.AppendTime(times[i])
	}
	flushed := verifrt.Int64("lastFlushed")
	order, unorder := SplitRecordByTime(rec, nil, flushed)
	k := 0 // rows are expected in the out-of-order part first, then in the ordered part
	check := func(part *record.Record, late bool) {
		if part == nil {
			return
		}
		pt := part.Times()
		ai := part.Schema.FieldIndex("a")
		for j := range pt {
			verifrt.Assert(k < n, "the split invented a row")
			verifrt.Assert(pt[j] == times[k], "a row is missing, duplicated or out of order after the split")
			if late {
				verifrt.Assert(pt[j] <= flushed, "a row newer than the last flushed time went to the out-of-order side")
			} else {
				verifrt.Assert(pt[j] > flushed, "a row at or before the last flushed time went to the ordered side")
			}
			if ai >= 0 {
				isNil := part.ColVals[ai].IsNil(j)
				verifrt.Assert(isNil == nulls[k], "null flag changed by the split")
				if !isNil {
					v, _ := part.ColVals[ai].IntegerValue(j)
					verifrt.Assert(v == vals[k], "value changed by the split")
				}
			} else {
				verifrt.Assert(nulls[k], "a field value was dropped by the split")
			}
			k++
		}
	}
	check(unorder, true)
	check(order, false)
	verifrt.Assert(k == n, "the split lost a row")
	if order != nil && unorder != nil {
		verifrt.Reach("both")
	}
	verifrt.Reach("end")
}
