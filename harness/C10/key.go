//go:build verif

package tsi

import (
	"bytes"

	"github.com/openGemini/openGemini/lib/util/lifted/vm/protoparser/influx"
	"github.com/openGemini/openGemini/lib/verifrt"
)

func verifC10Bytes(name string, max int) []byte {
	return verifrt.Bytes(name, verifrt.Choose(name+"Len", max+1))
}

// VerifC10TagValueCodec: the escaping used for tag keys and values inside index items. For arbitrary
// bytes (separator, escape and key/value separator bytes included): decode(encode(x)) = x with nothing
// left over, the encoding contains the tag separator only as its last byte (so items cannot be split in
// the wrong place), and two different values never encode to the same bytes.
func VerifC10TagValueCodec() {
	max := 3 + verifrt.Tier()
	a := verifC10Bytes("a", max)
	ea := marshalTagValue(nil, a)
	verifrt.Assert(len(ea) > 0 && ea[len(ea)-1] == tagSeparatorChar, "encoding does not end with the tag separator")
	for i := 0; i+1 < len(ea); i++ {
		verifrt.Assert(ea[i] != tagSeparatorChar && ea[i] != kvSeparatorChar, "separator byte inside an encoded tag value")
	}
	rest, back, err := unmarshalTagValue(nil, ea)
	verifrt.Assert(err == nil, "decode of an encoded tag value failed")
	verifrt.Assert(len(rest) == 0, "decode left bytes over")
	verifrt.Assert(bytes.Equal(back, a), "tag value round trip differs")
	b := verifC10Bytes("b", max)
	if !bytes.Equal(a, b) {
		verifrt.Assert(!bytes.Equal(ea, marshalTagValue(nil, b)), "two different tag values share an encoding")
	}
	verifrt.Reach("end")
}

// VerifC10TagItem: a (measurement, key, value) tag item as the index stores it: composite key then value,
// both escaped; parsing the item gives back the three parts and the series id.
func VerifC10TagItem() {
	max := 2
	name := verifrt.Bytes("name", 1+verifrt.Choose("nameLen", max))
	key := verifrt.Bytes("key", 1+verifrt.Choose("keyLen", max))
	val := verifC10Bytes("val", max)
	tsid := verifrt.Uint64("tsid")
	var prefix []byte
	prefix = append(prefix, nsPrefixTagToTSIDs)
	prefix = marshalTagValue(prefix, marshalCompositeTagKey(nil, name, key))
	prefix = marshalTagValue(prefix, val)
	item := append(append([]byte(nil), prefix...), byte(tsid>>56), byte(tsid>>48), byte(tsid>>40), byte(tsid>>32), byte(tsid>>24), byte(tsid>>16), byte(tsid>>8), byte(tsid))
	res, err := ParseItem(item)
	verifrt.Assert(err == nil, "ParseItem failed on a well-formed tag item")
	verifrt.Assert(res.Tsid == tsid, "series id differs")
	verifrt.Assert(res.Name == string(name), "measurement differs")
	verifrt.Assert(res.Key == string(key), "tag key differs")
	verifrt.Assert(res.TagValue == string(val), "tag value differs")
	verifrt.Reach("end")
}

// VerifC10CompositeKey: (measurement, tag key) pairs map to different composite keys, and the measurement comes back.
func VerifC10CompositeKey() {
	max := 3
	n1, k1 := verifrt.Bytes("n1", verifrt.Choose("n1Len", max+1)), verifrt.Bytes("k1", verifrt.Choose("k1Len", max+1))
	n2, k2 := verifrt.Bytes("n2", verifrt.Choose("n2Len", max+1)), verifrt.Bytes("k2", verifrt.Choose("k2Len", max+1))
	c1 := marshalCompositeTagKey(nil, n1, k1)
	rest, name, err := unmarshalCompositeTagKey(c1)
	verifrt.Assert(err == nil && bytes.Equal(name, n1) && bytes.Equal(rest, k1), "composite tag key round trip differs")
	if !bytes.Equal(n1, n2) || !bytes.Equal(k1, k2) {
		verifrt.Assert(!bytes.Equal(c1, marshalCompositeTagKey(nil, n2, k2)), "two different (measurement, tag key) pairs share a composite key")
	}
	verifrt.Reach("end")
}

// VerifC10SeriesKey: the length-prefixed series key. MakeIndexKey followed by MeasurementName /
// IndexKeyToTags gives back the measurement and every tag; two different series (same measurement,
// different tag sets, or different measurements) never share a key - the key is what ids are looked up by.
func VerifC10SeriesKey() {
	max := 2 + verifrt.Tier()
	mkSeries := func(p string) (string, influx.PointTags) {
		name := verifrt.String(p+"name", 1+verifrt.Choose(p+"nameLen", max))
		n := verifrt.Choose(p+"ntags", 3)
		tags := make(influx.PointTags, n)
		for i := range tags {
			tags[i].Key = verifrt.String(p+"k", 1+verifrt.Choose(p+"kLen", max))
			tags[i].Value = verifrt.String(p+"v", verifrt.Choose(p+"vLen", max+1))
		}
		return name, tags
	}
	n1, t1 := mkSeries("a")
	k1 := influx.MakeIndexKey(n1, t1, nil)
	gotName, _, err := influx.MeasurementName(k1)
	verifrt.Assert(err == nil && string(gotName) == n1, "measurement name does not come back from the series key")
	var back influx.PointTags
	_, err = influx.IndexKeyToTags(k1, true, &back)
	verifrt.Assert(err == nil, "IndexKeyToTags failed on a key it made")
	verifrt.Assert(len(back) == len(t1), "tag count differs")
	for i := range t1 {
		verifrt.Assert(back[i].Key == t1[i].Key && back[i].Value == t1[i].Value, "tag differs after the series key round trip")
	}
	n2, t2 := mkSeries("b")
	same := n1 == n2 && len(t1) == len(t2)
	if same {
		for i := range t1 {
			if t1[i].Key != t2[i].Key || t1[i].Value != t2[i].Value {
				same = false
			}
		}
	}
	if !same {
		verifrt.Assert(!bytes.Equal(k1, influx.MakeIndexKey(n2, t2, nil)), "two different series share a series key")
	}
	verifrt.Reach("end")
}

// VerifC10ID: identifiers are (24-bit restart counter) << 40 | (40-bit sequence). Two different
// (counter, sequence) pairs give different ids, and ids handed out after a restart (higher counter)
// never repeat an earlier one.
func VerifC10ID() {
	c1, c2 := verifrt.Uint64("clock1"), verifrt.Uint64("clock2")
	s1, s2 := verifrt.Uint64("seq1"), verifrt.Uint64("seq2")
	verifrt.Assume(c1 < 1<<24 && c2 < 1<<24 && s1 < 1<<40 && s2 < 1<<40)
	id1 := verifC10MakeID(c1, s1)
	id2 := verifC10MakeID(c2, s2)
	if c1 != c2 || s1 != s2 {
		verifrt.Assert(id1 != id2, "two (restart counter, sequence) pairs share an id")
	}
	if c1 < c2 {
		verifrt.Assert(id1 < id2, "an id handed out after a restart is not above the earlier ones")
	}
	verifrt.Reach("end")
}

// verifC10MakeID runs the real generator from a builder whose restart counter is c and whose next sequence number is s.
func verifC10MakeID(c, s uint64) uint64 {
	seq := s - 1
	b := &IndexBuilder{logicalClock: c, sequenceID: &seq}
	return b.GenerateUUID()
}

// VerifC10RowMerge: background merging of the index folds two tag->ids rows into one only if they describe
// the same (measurement, tag key, tag value); rows of different measurements (a tag-less measurement's
// row next to another measurement's row included) must stay apart, or one measurement's series would be
// listed under another.
func VerifC10RowMerge() {
	max := 1 + verifrt.Tier()
	mk := func(p string) ([]byte, []byte, []byte, []byte) {
		name := verifrt.Bytes(p+"name", 1+verifrt.Choose(p+"nameLen", max))
		key := verifC10Bytes(p+"key", max)
		val := verifC10Bytes(p+"val", max)
		var item []byte
		item = append(item, nsPrefixTagToTSIDs)
		item = marshalTagValue(item, marshalCompositeTagKey(nil, name, key))
		item = marshalTagValue(item, val)
		item = append(item, 0, 0, 0, 0, 0, 0, 0, 7) // one series id
		return item, name, key, val
	}
	i1, n1, k1, v1 := mk("a")
	i2, n2, k2, v2 := mk("b")
	var p1, p2 tagToTSIDsRowParser
	verifrt.Assert(p1.Init(i1, nsPrefixTagToTSIDs) == nil && p2.Init(i2, nsPrefixTagToTSIDs) == nil, "a well-formed tag->ids row does not parse")
	same := bytes.Equal(n1, n2) && bytes.Equal(k1, k2) && bytes.Equal(v1, v2)
	verifrt.Assert(p1.EqualPrefix(&p2) == same, "rows are merged although they differ in measurement, tag key or tag value (or kept apart although equal)")
	if !bytes.Equal(n1, n2) && bytes.Equal(k1, k2) && bytes.Equal(v1, v2) {
		verifrt.Reach("other-measurement")
	}
	verifrt.Reach("end")
}

// VerifC10FilterReuse: tag filter objects are pooled and re-used from one predicate leaf (and one statement)
// to the next. Initialising a re-used filter - whatever flags, cost and buffers the previous use left in it -
// gives exactly the filter a fresh object would be: a leftover "matches everything" or "matches the empty
// value" flag would make the next predicate select the wrong series.
func VerifC10FilterReuse() {
	max := 1 + verifrt.Tier()
	name := verifrt.Bytes("name", 1+verifrt.Choose("nameLen", max))
	key := verifC10Bytes("key", max)
	value := verifC10Bytes("value", max)
	neg := verifrt.Bool("negative")
	used := &tagFilter{
		key: verifrt.Bytes("oldKey", 2), value: verifrt.Bytes("oldValue", 2), name: verifrt.Bytes("oldName", 2), prefix: verifrt.Bytes("oldPrefix", 3),
		orSuffixes: []string{"x"}, graphiteReverseSuffix: []byte{1},
		matchCost: verifrt.Uint64("oldCost"), isNegative: verifrt.Bool("f1"), isRegexp: verifrt.Bool("f2"), isEmptyMatch: verifrt.Bool("f3"),
		isAllMatch: verifrt.Bool("f4"), isEmptyValue: verifrt.Bool("f5"),
	}
	fresh := &tagFilter{}
	verifrt.Assert(used.Init(name, key, value, neg, false) == nil && fresh.Init(name, key, value, neg, false) == nil, "Init of a plain tag filter failed")
	verifrt.Assert(bytes.Equal(used.key, fresh.key) && bytes.Equal(used.value, fresh.value) && bytes.Equal(used.name, fresh.name) && bytes.Equal(used.prefix, fresh.prefix), "a re-used filter keeps bytes of its previous use")
	verifrt.Assert(used.isNegative == fresh.isNegative && used.isRegexp == fresh.isRegexp && used.isEmptyMatch == fresh.isEmptyMatch &&
		used.isAllMatch == fresh.isAllMatch && used.isEmptyValue == fresh.isEmptyValue, "a re-used filter keeps a flag of its previous use")
	verifrt.Assert(used.matchCost == fresh.matchCost && len(used.orSuffixes) == len(fresh.orSuffixes) && len(used.graphiteReverseSuffix) == len(fresh.graphiteReverseSuffix) &&
		(used.reSuffixMatch == nil) == (fresh.reSuffixMatch == nil), "a re-used filter keeps matching state of its previous use")
	verifrt.Reach("end")
}

// VerifC10FilterCacheKey: the key under which the series ids selected by one predicate leaf are cached
// (tagFilter.Marshal) identifies the leaf: measurement, tag key, tag value and the two flags can be read
// back from it one after the other, so two different leaves never share a cache key - otherwise one
// predicate would be answered with the ids of another.
func VerifC10FilterCacheKey() {
	max := 2 + verifrt.Tier()
	f := &tagFilter{name: verifC10Bytes("name", 2), key: verifC10Bytes("key", max), value: verifC10Bytes("value", max),
		isNegative: verifrt.Bool("neg"), isRegexp: verifrt.Bool("re")}
	k := f.Marshal(nil)
	tail, name, err := unmarshalTagValue(nil, k)
	verifrt.Assert(err == nil && bytes.Equal(name, f.name), "the measurement cannot be read back from the cache key")
	tail, key, err := unmarshalTagValue(nil, tail)
	verifrt.Assert(err == nil && bytes.Equal(key, f.key), "the tag key cannot be read back from the cache key")
	tail, value, err := unmarshalTagValue(nil, tail)
	verifrt.Assert(err == nil && bytes.Equal(value, f.value), "the tag value cannot be read back from the cache key")
	verifrt.Assert(len(tail) == 2 && (tail[0] == 1) == f.isNegative && (tail[1] == 1) == f.isRegexp && tail[0] <= 1 && tail[1] <= 1, "the flags cannot be read back from the cache key")
	verifrt.Reach("end")
}
