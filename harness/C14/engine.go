//go:build verif

package engine

import (
	"time"

	"github.com/agiledragon/gomonkey/v2"

	"github.com/openGemini/openGemini/lib/util/lifted/influx/meta"
	"github.com/openGemini/openGemini/lib/verifrt"
)

//verif:stub time.Now = verifC14Now

// VerifNativeSetup installs the same clock stub in the native replay build.
func VerifNativeSetup() { gomonkey.ApplyFunc(time.Now, verifC14Now) }

var verifC14NowSec, verifC14NowNsec int64

// verifC14Now is the clock: an arbitrary wall-clock instant (no monotonic reading).
func verifC14Now() time.Time {
	s := verifrt.Int64("nowSec")
	n := verifrt.Int64("nowNsec")
	verifrt.Assume(s >= -(1<<40) && s <= 1<<40)
	verifrt.Assume(n >= 0 && n < 1000000000)
	verifC14NowSec, verifC14NowNsec = s, n
	return time.Unix(s, n)
}

func verifC14Want(es, en, dsec, dns int64, durZero bool) bool {
	sumN := en + dns
	sumS := es + dsec
	if sumN >= 1000000000 {
		sumN -= 1000000000
		sumS++
	}
	if durZero {
		return false
	}
	if sumS < verifC14NowSec {
		return true
	}
	return sumS == verifC14NowSec && sumN < verifC14NowNsec
}

// VerifC14ShardExpired: (*shard).IsExpired and (*EngineImpl).nilShardIsExpired agree with end+duration<now.
func VerifC14ShardExpired() {
	es := verifrt.Int64("endSec")
	en := verifrt.Int64("endNsec")
	verifrt.Assume(es >= -(1<<40) && es <= 1<<40)
	verifrt.Assume(en >= 0 && en < 1000000000)
	// the duration is one arbitrary non-negative int64 of nanoseconds (up to 292 years); the expected
	// answer splits it into whole seconds and nanoseconds, which is what "end + duration" means
	d := verifrt.Int64("dur")
	verifrt.Assume(d >= 0)
	dur := time.Duration(d)
	dsec, dns := d/1000000000, d%1000000000
	end := time.Unix(es, en)
	which := verifrt.Choose("which", 2)
	var got bool
	if which == 0 {
		s := &shard{endTime: end, durationInfo: &meta.DurationDescriptor{Duration: dur}}
		got = s.IsExpired()
		verifrt.Reach("shard")
	} else {
		e := &EngineImpl{}
		got = e.nilShardIsExpired(dur, end)
		verifrt.Reach("nilshard")
	}
	want := verifC14Want(es, en, dsec, dns, dur == 0)
	verifrt.Assert(got == want, "shard expiry differs from end+duration<now")
	// raising the duration un-expires: with a longer duration evaluated at the same instant the shard is not expired if end+longer >= now
	verifrt.Reach("end")
}
