//go:build verif

package meta

import (
	"time"

	"github.com/openGemini/openGemini/lib/verifrt"
)

// verifC14Instant builds an arbitrary instant inside ±2^40 s of the epoch from (sec, nsec).
func verifC14Instant(name string) (time.Time, int64, int64) {
	s := verifrt.Int64(name + "Sec")
	n := verifrt.Int64(name + "Nsec")
	verifrt.Assume(s >= -(1<<40) && s <= 1<<40)
	verifrt.Assume(n >= 0 && n < 1000000000)
	return time.Unix(s, n), s, n
}

// VerifC14ExpiredGroups: a live shard group is reported expired iff duration != 0 and end+duration < t,
// computed over (second, nanosecond) pairs without wrap-around.
func VerifC14ExpiredGroups() {
	end, es, en := verifC14Instant("end")
	now, ts, tn := verifC14Instant("now")
	// one arbitrary non-negative int64 of nanoseconds (up to 292 years), split into seconds and nanoseconds for the expected answer
	d := verifrt.Int64("dur")
	verifrt.Assume(d >= 0)
	dur := time.Duration(d)
	dsec, dns := d/1000000000, d%1000000000
	rpi := &RetentionPolicyInfo{Name: "rp", Duration: dur, ShardGroups: []ShardGroupInfo{{ID: 1, EndTime: end}}}
	got := len(rpi.ExpiredShardGroups(now)) == 1

	sumN := en + dns
	sumS := es + dsec
	if sumN >= 1000000000 {
		sumN -= 1000000000
		sumS++
	}
	want := false
	if dur != 0 {
		if sumS < ts {
			want = true
		} else if sumS == ts && sumN < tn {
			want = true
		}
	}
	verifrt.Assert(got == want, "expiry decision differs from end+duration<now")
	if dur == 0 {
		verifrt.Assert(!got, "unlimited retention expired a group")
		verifrt.Reach("unlimited")
	}
	if got {
		verifrt.Reach("expired")
	} else {
		verifrt.Reach("live")
	}
	verifrt.Reach("end")
}

// VerifC14DeletedSkipped: a group already marked deleted is never reported again.
func VerifC14DeletedSkipped() {
	end, _, _ := verifC14Instant("end")
	now, _, _ := verifC14Instant("now")
	del, _, _ := verifC14Instant("del")
	dur := time.Duration(verifrt.Int64("dur"))
	verifrt.Assume(dur >= 0)
	rpi := &RetentionPolicyInfo{Name: "rp", Duration: dur, ShardGroups: []ShardGroupInfo{{ID: 1, EndTime: end, DeletedAt: del}}}
	if rpi.ShardGroups[0].Deleted() {
		verifrt.Assert(len(rpi.ExpiredShardGroups(now)) == 0, "deleted group reported as expired")
		verifrt.Reach("deleted")
	}
	verifrt.Reach("end")
}
