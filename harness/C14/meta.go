//go:build verif

package meta

import (
	"time"

	"github.com/openGemini/openGemini/lib/verifrt"
)

// verifC14Instant builds an arbitrary instant inside ±2^40 s of the epoch from (sec, nsec).
func verifC14Instant(name string) (time.Time, int64, int64) {
	s := verifrt.Int64(name + "Sec")
	n := verifrt.Int64(name + "Nsec")
	verifrt.Assume(s >= -(1<<40) && s <= 1<<40)
	verifrt.Assume(n >= 0 && n < 1000000000)
	return time.Unix(s, n), s, n
}

// VerifC14ExpiredGroups: a live shard group is reported expired iff duration != 0 and end+duration < t,
// computed over (second, nanosecond) pairs without wrap-around.
func VerifC14ExpiredGroups() {
	end, es, en := verifC14Instant("end")
	now, ts, tn := verifC14Instant("now")
	// one arbitrary non-negative int64 of nanoseconds (up to 292 years), split into seconds and nanoseconds for the expected answer
	d := verifrt.Int64("dur")
	verifrt.Assume(d >= 0)
	dur := time.Duration(d)
	dsec, dns := d/1000000000, d%1000000000
	rpi := &RetentionPolicyInfo{Name: "rp", Duration: dur, ShardGroups: []ShardGroupInfo{{ID: 1, EndTime: end}}}
	got := len(rpi.ExpiredShardGroups(now)) == 1

	sumN := en + dns
	sumS := es + dsec
	if sumN >= 1000000000 {
		sumN -= 1000000000
		sumS++
	}
	want := false
	if dur != 0 {
		if sumS < ts {
			want = true
		} else if sumS == ts && sumN < tn {
			want = true
		}
	}
	verifrt.Assert(got == want, "expiry decision differs from end+duration<now")
	if dur == 0 {
		verifrt.Assert(!got, "unlimited retention expired a group")
		verifrt.Reach("unlimited")
	}
	if got {
		verifrt.Reach("expired")
	} else {
		verifrt.Reach("live")
	}
	verifrt.Reach("end")
}

// VerifC14DeletedSkipped: a group already marked deleted is never reported again.
func VerifC14DeletedSkipped() {
	end, _, _ := verifC14Instant("end")
	now, _, _ := verifC14Instant("now")
	del, _, _ := verifC14Instant("del")
	dur := time.Duration(verifrt.Int64("dur"))
	verifrt.Assume(dur >= 0)
	rpi := &RetentionPolicyInfo{Name: "rp", Duration: dur, ShardGroups: []ShardGroupInfo{{ID: 1, EndTime: end, DeletedAt: del}}}
	if rpi.ShardGroups[0].Deleted() {
		verifrt.Assert(len(rpi.ExpiredShardGroups(now)) == 0, "deleted group reported as expired")
		verifrt.Reach("deleted")
	}
	verifrt.Reach("end")
}

// VerifC14AlterDuration: altering a policy's duration takes effect: after a successful
// UpdateRetentionPolicy(duration = d2) the expiry decision for a group is the one for d2, whatever the
// old duration was - in particular altering to 0 (INF) stops expiry and raising the duration un-expires
// a group that is still within the new horizon.
func VerifC14AlterDuration() {
	data := &Data{PtNumPerNode: 1}
	data.CreateDataNode("127.0.0.1:8086", "127.0.0.1:8188", "", "")
	verifrt.Assert(data.CreateDatabase("db", nil, nil, false, 1, nil) == nil, "setup: CreateDatabase failed")
	d1 := time.Duration(verifrt.Int64("d1"))
	d2 := time.Duration(verifrt.Int64("d2"))
	verifrt.Assume(d1 >= 0 && d2 >= 0)
	rpi := &RetentionPolicyInfo{Name: "rp", ReplicaN: 1, Duration: d1, ShardGroupDuration: time.Hour, IndexGroupDuration: time.Hour}
	if data.CreateRetentionPolicy("db", rpi, true) != nil {
		return // d1 not an admissible duration
	}
	err := data.UpdateRetentionPolicy("db", "rp", &RetentionPolicyUpdate{Duration: &d2}, false)
	rp, _ := data.RetentionPolicy("db", "rp")
	if err != nil {
		verifrt.Assert(rp.Duration == d1, "a rejected alteration changed the duration")
		verifrt.Reach("rejected")
		verifrt.Reach("end")
		return
	}
	verifrt.Assert(rp.Duration == d2, "a successful alteration did not set the new duration")
	if d2 == 0 && d1 != 0 {
		verifrt.Reach("to-unlimited")
	}
	// the expiry decision follows the new duration (instants kept concrete: the arithmetic itself is VerifC14ExpiredGroups)
	end := time.Unix(1700000000, 0)
	rp.ShardGroups = []ShardGroupInfo{{ID: 1, EndTime: end}}
	now := end.Add(48 * time.Hour)
	got := len(rp.ExpiredShardGroups(now)) == 1
	want := d2 != 0 && d2 < 48*time.Hour
	verifrt.Assert(got == want, "expiry after altering the duration does not follow the new duration")
	verifrt.Reach("end")
}
