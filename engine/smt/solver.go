// Package smt drives an SMT solver process (z3 -in / cvc5 --incremental) over pipes, keeping an
// assertion stack that mirrors the executor's path condition.
package smt

import (
	"bufio"
	"fmt"
	"io"
	"os"
	"os/exec"
	"runtime"
	"strconv"
	"strings"
	"time"

	"gosmt/term"
)

type Result int

const (
	Sat Result = iota
	Unsat
	Unknown
)

func (r Result) String() string { return [...]string{"sat", "unsat", "unknown"}[r] }

type Stats struct {
	Queries  int
	Sat      int
	Unsat    int
	Unknown  int
	Errors   int
	Restarts int
	Time     time.Duration
	AltUsed  int // queries decided by the alternate back end
}

type Solver struct {
	Kind      string // "z3", "z3-new", "cvc5", "cvc5-int"
	TimeoutMs int
	cmd       *exec.Cmd
	in        io.WriteCloser
	out       *bufio.Reader
	pr        *term.Printer
	stack     []*term.Term // asserted path-condition entries, one push frame each
	syncN     int
	Stats     Stats
	Log       io.Writer
	dead      bool
}

func argv(kind string, timeoutMs int) []string {
	switch kind {
	case "z3":
		return []string{"z3", "-in", fmt.Sprintf("-t:%d", timeoutMs)}
	case "z3-new":
		return []string{"z3-new", "-in", fmt.Sprintf("-t:%d", timeoutMs)}
	case "cvc5":
		return []string{"cvc5", "--incremental", "--produce-models", "--lang=smt2", fmt.Sprintf("--tlimit-per=%d", timeoutMs)}
	case "cvc5-int":
		return []string{"cvc5", "--incremental", "--produce-models", "--lang=smt2", "--solve-bv-as-int=sum", fmt.Sprintf("--tlimit-per=%d", timeoutMs)}
	}
	panic("unknown solver kind " + kind)
}

func New(kind string, timeoutMs int) (*Solver, error) {
	s := &Solver{Kind: kind, TimeoutMs: timeoutMs}
	dialect := "std"
	if strings.HasPrefix(kind, "z3") {
		dialect = "z3"
	}
	s.pr = term.NewPrinter(dialect)
	if err := s.start(); err != nil {
		return nil, err
	}
	return s, nil
}

func (s *Solver) start() error {
	a := argv(s.Kind, s.TimeoutMs)
	s.cmd = exec.Command(a[0], a[1:]...)
	in, err := s.cmd.StdinPipe()
	if err != nil {
		return err
	}
	out, err := s.cmd.StdoutPipe()
	if err != nil {
		return err
	}
	s.cmd.Stderr = os.Stderr
	if err := s.cmd.Start(); err != nil {
		return err
	}
	s.in = in
	s.out = bufio.NewReaderSize(out, 1<<20)
	s.stack = nil
	s.pr.Reset()
	s.dead = false
	pre := "(set-option :produce-models true)\n"
	if strings.HasPrefix(s.Kind, "cvc5") {
		pre += "(set-logic ALL)\n"
	}
	_, err = s.roundTrip(pre)
	return err
}

func (s *Solver) Close() {
	if s.cmd != nil && s.cmd.Process != nil {
		s.in.Close()
		s.cmd.Process.Kill()
		s.cmd.Wait()
	}
}

func (s *Solver) restart() {
	s.Close()
	s.Stats.Restarts++
	if err := s.start(); err != nil {
		panic("smt: cannot restart solver: " + err.Error())
	}
}

// roundTrip sends text followed by a sync echo and returns everything printed before the echo.
func (s *Solver) roundTrip(text string) ([]string, error) {
	s.syncN++
	marker := fmt.Sprintf("SYNC%d", s.syncN)
	full := text + "(echo \"" + marker + "\")\n"
	if s.Log != nil {
		io.WriteString(s.Log, full)
	}
	if _, err := io.WriteString(s.in, full); err != nil {
		s.dead = true
		return nil, err
	}
	type res struct {
		lines []string
		err   error
	}
	ch := make(chan res, 1)
	go func() {
		var lines []string
		for {
			line, err := s.out.ReadString('\n')
			if err != nil {
				ch <- res{lines, err}
				return
			}
			line = strings.TrimRight(line, "\r\n")
			if line == marker || line == "\""+marker+"\"" {
				ch <- res{lines, nil}
				return
			}
			lines = append(lines, line)
		}
	}()
	// hard watchdog: 3x the soft timeout + 5 s
	select {
	case r := <-ch:
		if r.err != nil {
			s.dead = true
		}
		if s.Log != nil {
			for _, l := range r.lines {
				fmt.Fprintf(s.Log, "; -> %s\n", l)
			}
		}
		return r.lines, r.err
	case <-time.After(time.Duration(3*s.TimeoutMs+5000) * time.Millisecond):
		s.dead = true
		s.cmd.Process.Kill()
		<-ch
		return nil, fmt.Errorf("solver watchdog timeout")
	}
}

// Sync makes the solver's assertion stack equal to pc (compared by term identity).
func (s *Solver) Sync(pc []*term.Term) {
	if s.dead {
		s.restart()
	}
	lcp := 0
	for lcp < len(pc) && lcp < len(s.stack) && pc[lcp] == s.stack[lcp] {
		lcp++
	}
	var sb strings.Builder
	if n := len(s.stack) - lcp; n > 0 {
		fmt.Fprintf(&sb, "(pop %d)\n", n)
		s.pr.PopTo(lcp)
		s.stack = s.stack[:lcp]
	}
	for i := lcp; i < len(pc); i++ {
		sb.WriteString("(push 1)\n")
		s.pr.Level = i + 1
		r := s.pr.Define(&sb, pc[i])
		fmt.Fprintf(&sb, "(assert %s)\n", r)
		s.stack = append(s.stack, pc[i])
	}
	if sb.Len() > 0 {
		lines, err := s.roundTrip(sb.String())
		if err != nil || hasError(lines) {
			s.Stats.Errors++
			if s.Log != nil {
				fmt.Fprintf(s.Log, "; sync error %v %v\n", err, lines)
			}
			// restart and resend everything once
			s.restart()
			var sb2 strings.Builder
			for i := 0; i < len(pc); i++ {
				sb2.WriteString("(push 1)\n")
				s.pr.Level = i + 1
				r := s.pr.Define(&sb2, pc[i])
				fmt.Fprintf(&sb2, "(assert %s)\n", r)
				s.stack = append(s.stack, pc[i])
			}
			if sb2.Len() > 0 {
				lines, err = s.roundTrip(sb2.String())
				if err != nil || hasError(lines) {
					s.dead = true
					fmt.Fprintf(os.Stderr, "smt: persistent sync error: %v %v\n", err, lines)
				}
			}
		}
	}
}

func hasError(lines []string) bool {
	for _, l := range lines {
		if strings.Contains(l, "(error") {
			return true
		}
	}
	return false
}

// Check decides sat(pc ∧ q). If wantModel and the result is sat, values for vars are returned.
func (s *Solver) Check(pc []*term.Term, q *term.Term, vars map[string]uint8) (Result, map[string]uint64) {
	t0 := time.Now()
	defer func() { s.Stats.Time += time.Since(t0) }()
	s.Stats.Queries++
	s.Sync(pc)
	if s.dead {
		s.Stats.Unknown++
		return Unknown, nil
	}
	var sb strings.Builder
	sb.WriteString("(push 1)\n")
	s.pr.Level = len(s.stack) + 1
	if q != nil {
		r := s.pr.Define(&sb, q)
		fmt.Fprintf(&sb, "(assert %s)\n", r)
	}
	sb.WriteString("(check-sat)\n")
	lines, err := s.roundTrip(sb.String())
	res := Unknown
	if err == nil && !hasError(lines) {
		for _, l := range lines {
			switch strings.TrimSpace(l) {
			case "sat":
				res = Sat
			case "unsat":
				res = Unsat
			}
		}
	} else {
		s.Stats.Errors++
		if s.Log != nil {
			fmt.Fprintf(s.Log, "; check error %v %v\n", err, lines)
		}
	}
	var model map[string]uint64
	if res == Sat && vars != nil && !s.dead {
		model = s.getValues(vars)
	}
	if !s.dead {
		if _, err := s.roundTrip("(pop 1)\n"); err != nil {
			s.dead = true
		}
		s.pr.PopTo(len(s.stack))
	}
	switch res {
	case Sat:
		s.Stats.Sat++
	case Unsat:
		s.Stats.Unsat++
	default:
		s.Stats.Unknown++
	}
	return res, model
}

func (s *Solver) getValues(vars map[string]uint8) map[string]uint64 {
	model := map[string]uint64{}
	var names []string
	for n := range vars {
		names = append(names, n)
	}
	// batches to keep lines short
	for i := 0; i < len(names); i += 50 {
		j := i + 50
		if j > len(names) {
			j = len(names)
		}
		var sb strings.Builder
		var decl strings.Builder
		sb.WriteString("(get-value (")
		for _, n := range names[i:j] {
			// make sure the variable is known to the solver (declare if it was never mentioned)
			t := &term.Term{Op: term.OpVar, W: vars[n], Name: n}
			s.pr.Define(&decl, t)
			sb.WriteString(s.prRef(n))
			sb.WriteByte(' ')
		}
		sb.WriteString("))\n")
		if decl.Len() > 0 {
			// a declaration after check-sat invalidates the model in some solvers: re-check
			lines, err := s.roundTrip(decl.String() + "(check-sat)\n")
			if err != nil || hasError(lines) {
				return model
			}
		}
		lines, err := s.roundTrip(sb.String())
		if err != nil {
			return model
		}
		parseValues(strings.Join(lines, " "), model)
	}
	return model
}

func (s *Solver) prRef(name string) string {
	return "|" + strings.NewReplacer("|", "_", "\\", "_").Replace(name) + "|"
}

// parseValues parses "((|a| #x00ff) (b true) ...)": a list of (symbol value) pairs; symbols may
// be |quoted| or plain.
func parseValues(text string, out map[string]uint64) {
	i, n := 0, len(text)
	// skip to the outer "("
	for i < n && text[i] != '(' {
		i++
	}
	i++
	for i < n {
		for i < n && text[i] != '(' {
			if text[i] == ')' {
				return
			}
			i++
		}
		if i >= n {
			return
		}
		i++ // past "("
		for i < n && text[i] == ' ' {
			i++
		}
		var name string
		if i < n && text[i] == '|' {
			e := strings.IndexByte(text[i+1:], '|')
			if e < 0 {
				return
			}
			name = text[i+1 : i+1+e]
			i += e + 2
		} else {
			j := i
			for j < n && text[j] != ' ' && text[j] != ')' {
				j++
			}
			name = text[i:j]
			i = j
		}
		for i < n && text[i] == ' ' {
			i++
		}
		depth := 0
		j := i
		for j < n {
			if text[j] == '(' {
				depth++
			} else if text[j] == ')' {
				if depth == 0 {
					break
				}
				depth--
			}
			j++
		}
		out[name] = parseVal(strings.TrimSpace(text[i:j]))
		i = j + 1
	}
}

func parseVal(v string) uint64 {
	switch {
	case v == "true":
		return 1
	case v == "false":
		return 0
	case strings.HasPrefix(v, "#x"):
		u, _ := strconv.ParseUint(v[2:], 16, 64)
		return u
	case strings.HasPrefix(v, "#b"):
		u, _ := strconv.ParseUint(v[2:], 2, 64)
		return u
	case strings.HasPrefix(v, "(_ bv"):
		f := strings.Fields(v[5:])
		u, _ := strconv.ParseUint(f[0], 10, 64)
		return u
	}
	return 0
}

// OneShot decides sat(pc ∧ q) with fresh non-incremental solver processes run in parallel (a
// portfolio); the first definite answer wins. Models are read with get-value when vars != nil.
// oneShotSem bounds the number of portfolios running at the same time: 16 workers times 3-4 solver
// processes each would oversubscribe the machine and turn slow queries into timeouts.
var oneShotSem = make(chan struct{}, maxInt(2, runtime.NumCPU()/3))

func maxInt(a, b int) int {
	if a > b {
		return a
	}
	return b
}

func OneShot(kinds []string, timeoutMs int, pc []*term.Term, q *term.Term, vars map[string]uint8, dumpTo string) (Result, map[string]uint64, string) {
	oneShotSem <- struct{}{}
	defer func() { <-oneShotSem }()
	type ans struct {
		r     Result
		m     map[string]uint64
		kind  string
	}
	ch := make(chan ans, len(kinds))
	var cmds []*exec.Cmd
	for _, kind := range kinds {
		dialect := "std"
		if strings.HasPrefix(kind, "z3") {
			dialect = "z3"
		}
		pr := term.NewPrinter(dialect)
		var sb strings.Builder
		sb.WriteString("(set-option :produce-models true)\n")
		if strings.HasPrefix(kind, "cvc5") {
			sb.WriteString("(set-logic ALL)\n")
		}
		for _, p := range pc {
			r := pr.Define(&sb, p)
			fmt.Fprintf(&sb, "(assert %s)\n", r)
		}
		if q != nil {
			r := pr.Define(&sb, q)
			fmt.Fprintf(&sb, "(assert %s)\n", r)
		}
		var names []string
		for n := range vars {
			t := &term.Term{Op: term.OpVar, W: vars[n], Name: n}
			pr.Define(&sb, t)
			names = append(names, n)
		}
		sb.WriteString("(check-sat)\n")
		if len(names) > 0 {
			sb.WriteString("(get-value (")
			for _, n := range names {
				sb.WriteString("|" + strings.NewReplacer("|", "_", "\\", "_").Replace(n) + "| ")
			}
			sb.WriteString("))\n")
		}
		text := sb.String()
		if dumpTo != "" && kind == kinds[0] {
			os.WriteFile(dumpTo, []byte(text), 0o644)
		}
		var a []string
		switch kind {
		case "z3":
			a = []string{"z3", "-in", fmt.Sprintf("-T:%d", (timeoutMs+999)/1000)}
		case "z3-new":
			a = []string{"z3-new", "-in", fmt.Sprintf("-T:%d", (timeoutMs+999)/1000)}
		case "cvc5":
			a = []string{"cvc5", "--produce-models", "--lang=smt2", fmt.Sprintf("--tlimit=%d", timeoutMs)}
		case "cvc5-int":
			a = []string{"cvc5", "--produce-models", "--lang=smt2", "--solve-bv-as-int=sum", fmt.Sprintf("--tlimit=%d", timeoutMs)}
		}
		cmd := exec.Command(a[0], a[1:]...)
		cmd.Stdin = strings.NewReader(text)
		cmds = append(cmds, cmd)
		go func(kind string, cmd *exec.Cmd) {
			out, _ := cmd.Output()
			s := string(out)
			res := Unknown
			var m map[string]uint64
			{
				first := strings.TrimSpace(strings.SplitN(s, "\n", 2)[0])
				switch first {
				case "sat":
					res = Sat
					if len(names) > 0 {
						m = map[string]uint64{}
						rest := ""
						if i := strings.IndexByte(s, '\n'); i >= 0 {
							rest = s[i+1:]
						}
						parseValues(strings.ReplaceAll(rest, "\n", " "), m)
					}
				case "unsat":
					res = Unsat
				}
			}
			ch <- ans{res, m, kind}
		}(kind, cmd)
	}
	final := ans{r: Unknown}
	for range kinds {
		a := <-ch
		if a.r != Unknown {
			final = a
			break
		}
	}
	for _, c := range cmds {
		if c.Process != nil {
			c.Process.Kill()
		}
	}
	return final.r, final.m, final.kind
}
