package interp

import (
	"fmt"
	"go/types"
	"sort"
	"strings"

	"golang.org/x/tools/go/ssa"

	"gosmt/smt"
	"gosmt/term"
)

type obsTerm struct {
	pos   int
	label string
	t     *term.Term
}

const verifrtSuffix = "/lib/verifrt."

func (it *Interp) constStr(v Value, what string) string {
	s, ok := v.(string)
	if !ok {
		panic(unsupported(what + " must be a constant string"))
	}
	return s
}

func init() {
	vr := func(name string, f intrinsic) {
		intrinsics["github.com/openGemini/openGemini/lib/verifrt."+name] = f
	}
	scalar := func(w uint8) intrinsic {
		return func(it *Interp, fn *ssa.Function, args []Value, site ssa.Instruction) Value {
			v := it.nextInput(it.constStr(args[0], "input name"), w)
			if t, ok := v.(*term.Term); ok {
				return t
			}
			rt := fn.Signature.Results().At(0).Type()
			k, _ := basicInfo(rt)
			if k == kFloat {
				return it.fromTerm(it.ts.BV(v.(uint64), 64), rt)
			}
			return v
		}
	}
	vr("Bool", scalar(0))
	vr("Byte", scalar(8))
	vr("Uint8", scalar(8))
	vr("Int8", scalar(8))
	vr("Uint16", scalar(16))
	vr("Int16", scalar(16))
	vr("Uint32", scalar(32))
	vr("Int32", scalar(32))
	vr("Uint64", scalar(64))
	vr("Int64", scalar(64))
	vr("Int", scalar(64))
	vr("Float64", scalar(64))
	vr("Bytes", func(it *Interp, fn *ssa.Function, args []Value, site ssa.Instruction) Value {
		name := it.constStr(args[0], "input name")
		n := it.asInt(args[1], "Bytes length")
		buf := newBuf(n)
		for i := 0; i < n; i++ {
			v := it.nextInput(name, 8)
			if t, ok := v.(*term.Term); ok {
				buf.setSym(i, t)
			} else {
				buf.b[i] = byte(v.(uint64))
			}
		}
		return NumSlice{buf: buf, len: n, cap: n, esz: 1}
	})
	vr("String", func(it *Interp, fn *ssa.Function, args []Value, site ssa.Instruction) Value {
		name := it.constStr(args[0], "input name")
		n := it.asInt(args[1], "String length")
		buf := newBuf(n)
		for i := 0; i < n; i++ {
			v := it.nextInput(name, 8)
			if t, ok := v.(*term.Term); ok {
				buf.setSym(i, t)
			} else {
				buf.b[i] = byte(v.(uint64))
			}
		}
		return normStr(SymStr{buf, 0, n})
	})
	vr("Choose", func(it *Interp, fn *ssa.Function, args []Value, site ssa.Instruction) Value {
		return uint64(it.choose(it.constStr(args[0], "input name"), it.asInt(args[1], "Choose bound")))
	})
	vr("Assume", func(it *Interp, fn *ssa.Function, args []Value, site ssa.Instruction) Value {
		switch c := args[0].(type) {
		case bool:
			if !c {
				panic(pathEnd{"assume false"})
			}
		case *term.Term:
			it.assume(c)
		}
		return nil
	})
	vr("Assert", func(it *Interp, fn *ssa.Function, args []Value, site ssa.Instruction) Value {
		msg, _ := args[1].(string)
		switch c := args[0].(type) {
		case bool:
			if !c {
				var ins []InputRec
				if it.cfg.Concrete != nil {
					ins = it.inputs
				} else {
					// the assertion is false on this whole path: it is a violation iff the path is feasible
					var r smt.Result
					var m map[string]uint64
					if it.model != nil && len(it.trace) >= len(it.prefix) {
						r, m = smt.Sat, it.model
					} else {
						r, m = it.check(nil, it.inputVars())
					}
					if r == smt.Unsat {
						panic(pathEnd{"infeasible path"})
					}
					if r != smt.Sat || !it.modelSatisfies(m, it.ts.True) {
						it.noteUnknown("feasibility of a path on which assertion \"" + msg + "\" is false")
						panic(pathEnd{"assertion false on a path of unknown feasibility"})
					}
					ins = it.modelInputs(m)
				}
				it.fail(Failure{Kind: "assert", Msg: msg, Inputs: ins, Stack: it.stackString(), PathLen: len(it.trace)})
				panic(pathEnd{"assertion failed"})
			}
			it.assertsOK++
		case *term.Term:
			it.assert(c, msg)
		}
		return nil
	})
	vr("Reach", func(it *Interp, fn *ssa.Function, args []Value, site ssa.Instruction) Value {
		it.reached[it.constStr(args[0], "label")] = true
		return nil
	})
	vr("Observe", func(it *Interp, fn *ssa.Function, args []Value, site ssa.Instruction) Value {
		label := it.constStr(args[0], "label")
		if iv, ok := args[1].(Iface); ok {
			if t, isT := iv.v.(*term.Term); isT {
				it.observeTerms = append(it.observeTerms, obsTerm{len(it.observe), label, t})
				it.observe = append(it.observe, label+"=<sym>")
				return nil
			}
		}
		it.observe = append(it.observe, fmt.Sprintf("%s=%s", label, it.render(args[1], 0)))
		return nil
	})
	vr("DeepEqual", func(it *Interp, fn *ssa.Function, args []Value, site ssa.Instruction) Value {
		return it.deepEqual(args[0], args[1])
	})
	vr("Havoc", func(it *Interp, fn *ssa.Function, args []Value, site ssa.Instruction) Value {
		iv := args[0].(Iface)
		it.havoc(it.constStr(args[1], "name"), iv.t, iv.v, map[interface{}]bool{}, true)
		return nil
	})
	vr("MapOrder", func(it *Interp, fn *ssa.Function, args []Value, site ssa.Instruction) Value {
		it.MapOrderNondet = args[0].(bool)
		return nil
	})
	vr("Tier", func(it *Interp, fn *ssa.Function, args []Value, site ssa.Instruction) Value {
		return uint64(it.cfg.Tier)
	})
	vr("Symbolic", func(it *Interp, fn *ssa.Function, args []Value, site ssa.Instruction) Value {
		return it.cfg.Concrete == nil
	})
	vr("UF64", func(it *Interp, fn *ssa.Function, args []Value, site ssa.Instruction) Value {
		// uninterpreted function of a byte string: UF(name, len, bytes...) -> uint64
		name := it.constStr(args[0], "uf name")
		b, o, n := bytesOf(args[1])
		ts := make([]*term.Term, n)
		for i := 0; i < n; i++ {
			ts[i] = it.toTerm8(it.bufByte(b, o+i))
		}
		return it.ufBytes(name, ts)
	})
}

// ufBytes applies an uninterpreted function to a symbolic byte string. Concrete strings are
// related to symbolic ones through the same n-ary function symbol.
func (it *Interp) ufBytes(name string, bs []*term.Term) *term.Term {
	return it.ts.UF(fmt.Sprintf("%s!%d", name, len(bs)), 64, bs...)
}

// render prints a value canonically (for Observe / co-simulation).
func (it *Interp) render(v Value, depth int) string {
	if depth > 6 {
		return "..."
	}
	switch x := v.(type) {
	case nil:
		return "nil"
	case bool:
		return fmt.Sprint(x)
	case uint64:
		return fmt.Sprintf("%d", x)
	case float64:
		return fmt.Sprintf("f%016x", mathFloat64bits(x))
	case float32:
		return fmt.Sprintf("f%08x", mathFloat32bits(x))
	case string:
		return fmt.Sprintf("%q", x)
	case SymStr:
		return "<symstr>"
	case *term.Term:
		return "<sym>"
	case Iface:
		if x.t == nil {
			return "nil"
		}
		k, w := basicInfo(x.t)
		if u, ok := x.v.(uint64); ok && k == kInt {
			return fmt.Sprintf("%d", sx(u, w))
		}
		return it.render(x.v, depth+1)
	case NumSlice:
		var sb strings.Builder
		sb.WriteString("[")
		if x.buf != nil {
			for i := 0; i < x.len*x.esz; i++ {
				if _, ok := x.buf.sym[x.off+i]; ok {
					sb.WriteString("??")
				} else {
					fmt.Fprintf(&sb, "%02x", x.buf.b[x.off+i])
				}
			}
		}
		sb.WriteString("]")
		return sb.String()
	case []Value:
		var parts []string
		for _, e := range x {
			parts = append(parts, it.render(e, depth+1))
		}
		return "[" + strings.Join(parts, " ") + "]"
	case Struct:
		var parts []string
		for _, e := range x {
			parts = append(parts, it.render(e, depth+1))
		}
		return "{" + strings.Join(parts, " ") + "}"
	case Array:
		var parts []string
		for _, e := range x {
			parts = append(parts, it.render(e, depth+1))
		}
		return "[" + strings.Join(parts, " ") + "]"
	case *Value:
		if x == nil {
			return "nil"
		}
		return "&" + it.render(*x, depth+1)
	}
	return fmt.Sprintf("<%T>", v)
}

// ---------- DeepEqual ----------

func (it *Interp) deepEqual(a, b Value) Value {
	ai, aok := a.(Iface)
	bi, bok := b.(Iface)
	if !aok || !bok {
		panic("DeepEqual expects interface arguments")
	}
	if ai.t == nil || bi.t == nil {
		return ai.t == nil && bi.t == nil
	}
	if !types.Identical(ai.t, bi.t) {
		return false
	}
	return it.deepEq(ai.t, ai.v, bi.v, map[[2]interface{}]bool{}, 0)
}

func isSyncType(t types.Type) bool {
	if n, ok := t.(*types.Named); ok && n.Obj().Pkg() != nil {
		p := n.Obj().Pkg().Path()
		return p == "sync" || p == "sync/atomic" && false
	}
	return false
}

func (it *Interp) deepEq(t types.Type, a, b Value, seen map[[2]interface{}]bool, depth int) Value {
	if depth > 40 {
		panic(unsupported("DeepEqual: structure too deep"))
	}
	switch u := t.Underlying().(type) {
	case *types.Basic:
		k, _ := basicInfo(u)
		if k == kFloat {
			// bit-pattern equality
			x, y := it.toTerm(a, t), it.toTerm(b, t)
			return it.boolVal(it.ts.Eq(x, y))
		}
		if k == kUnsafePtr {
			return true
		}
		return it.equals(t, a, b)
	case *types.Pointer:
		if isNilPtr(a) || isNilPtr(b) {
			return isNilPtr(a) && isNilPtr(b)
		}
		if a == b {
			return true
		}
		pa, aok := a.(*Value)
		pb, bok := b.(*Value)
		if aok && bok {
			k := [2]interface{}{pa, pb}
			if seen[k] {
				return true
			}
			seen[k] = true
			return it.deepEq(u.Elem(), *pa, *pb, seen, depth+1)
		}
		return it.deepEq(u.Elem(), it.load(a, u.Elem()), it.load(b, u.Elem()), seen, depth+1)
	case *types.Slice:
		na, nb := sliceLen(a), sliceLen(b)
		if na != nb {
			return false
		}
		var r Value = true
		if isNum(u.Elem()) {
			sa, sb := a.(NumSlice), b.(NumSlice)
			for i := 0; i < na; i++ {
				x := it.loadNum(sa.buf, sa.off+i*sa.esz, u.Elem())
				y := it.loadNum(sb.buf, sb.off+i*sb.esz, u.Elem())
				r = it.andVal(r, it.deepEq(u.Elem(), x, y, seen, depth+1))
				if bb, ok := r.(bool); ok && !bb {
					return false
				}
			}
			return r
		}
		sa, _ := a.([]Value)
		sb, _ := b.([]Value)
		for i := 0; i < na; i++ {
			r = it.andVal(r, it.deepEq(u.Elem(), sa[i], sb[i], seen, depth+1))
			if bb, ok := r.(bool); ok && !bb {
				return false
			}
		}
		return r
	case *types.Array:
		var r Value = true
		if xa, ok := a.(NumArray); ok {
			ya := b.(NumArray)
			esz := sizeof(u.Elem())
			for i := 0; i < int(u.Len()); i++ {
				x := it.loadNum(xa.buf, i*esz, u.Elem())
				y := it.loadNum(ya.buf, i*esz, u.Elem())
				r = it.andVal(r, it.deepEq(u.Elem(), x, y, seen, depth+1))
			}
			return r
		}
		xa, ya := a.(Array), b.(Array)
		for i := range xa {
			r = it.andVal(r, it.deepEq(u.Elem(), xa[i], ya[i], seen, depth+1))
		}
		return r
	case *types.Struct:
		if isSyncType(t) {
			return true
		}
		xs, ys := a.(Struct), b.(Struct)
		var r Value = true
		for i := 0; i < u.NumFields(); i++ {
			ft := u.Field(i).Type()
			if isSyncType(ft) {
				continue
			}
			r = it.andVal(r, it.deepEq(ft, xs[i], ys[i], seen, depth+1))
			if bb, ok := r.(bool); ok && !bb {
				return false
			}
		}
		return r
	case *types.Interface:
		xi, yi := a.(Iface), b.(Iface)
		if xi.t == nil || yi.t == nil {
			return xi.t == nil && yi.t == nil
		}
		if !types.Identical(xi.t, yi.t) {
			return false
		}
		return it.deepEq(xi.t, xi.v, yi.v, seen, depth+1)
	case *types.Map:
		ma, _ := a.(*MapObj)
		mb, _ := b.(*MapObj)
		la, lb := 0, 0
		if ma != nil {
			la = ma.n
		}
		if mb != nil {
			lb = mb.n
		}
		if la != lb {
			return false
		}
		if la == 0 {
			return true
		}
		var r Value = true
		for _, i := range ma.liveIdx() {
			j := it.mapFind(mb, u.Key(), ma.keys[i])
			if j < 0 {
				return false
			}
			r = it.andVal(r, it.deepEq(u.Elem(), ma.vals[i], mb.vals[j], seen, depth+1))
			if bb, ok := r.(bool); ok && !bb {
				return false
			}
		}
		return r
	case *types.Signature:
		return (a == nil) == (b == nil)
	case *types.Chan:
		return true
	}
	panic(unsupported("DeepEqual on " + t.String()))
}

// ---------- Havoc ----------

// havoc fills every numeric/bool leaf reachable from v (of type t) with fresh inputs named by their
// access path. Strings, funcs, channels are left alone; maps are descended (string keys, in sorted key
// order) when their values are pointers; *time.Location is not followed.
func (it *Interp) havoc(name string, t types.Type, v Value, seen map[interface{}]bool, top bool) {
	switch u := t.Underlying().(type) {
	case *types.Pointer:
		p, ok := v.(*Value)
		if !ok || p == nil {
			return
		}
		if n, isNamed := u.Elem().(*types.Named); isNamed && n.Obj().Pkg() != nil && n.Obj().Pkg().Path() == "time" {
			return
		}
		if seen[p] {
			return
		}
		seen[p] = true
		*p = it.havocVal(name, u.Elem(), *p, seen)
	}
}

func (it *Interp) havocVal(name string, t types.Type, v Value, seen map[interface{}]bool) Value {
	switch u := t.Underlying().(type) {
	case *types.Basic:
		k, w := basicInfo(u)
		switch k {
		case kBool:
			return it.nextInput(name, 0)
		case kInt, kUint:
			return it.nextInput(name, w)
		case kFloat:
			x := it.nextInput(name, w)
			if c, ok := x.(uint64); ok {
				return it.fromTerm(it.ts.BV(c, w), t)
			}
			return x
		}
		return v
	case *types.Struct:
		if isSyncType(t) {
			return v
		}
		st := v.(Struct)
		for i := 0; i < u.NumFields(); i++ {
			st[i] = it.havocVal(name+"."+u.Field(i).Name(), u.Field(i).Type(), st[i], seen)
		}
		return st
	case *types.Array:
		if na, ok := v.(NumArray); ok {
			esz := sizeof(u.Elem())
			for i := 0; i < int(u.Len()); i++ {
				x := it.havocVal(fmt.Sprintf("%s[%d]", name, i), u.Elem(), it.loadNum(na.buf, i*esz, u.Elem()), seen)
				it.storeNum(na.buf, i*esz, u.Elem(), x)
			}
			return na
		}
		arr := v.(Array)
		for i := range arr {
			arr[i] = it.havocVal(fmt.Sprintf("%s[%d]", name, i), u.Elem(), arr[i], seen)
		}
		return arr
	case *types.Slice:
		if ns, ok := v.(NumSlice); ok {
			for i := 0; i < ns.len; i++ {
				x := it.havocVal(fmt.Sprintf("%s[%d]", name, i), u.Elem(), it.loadNum(ns.buf, ns.off+i*ns.esz, u.Elem()), seen)
				it.storeNum(ns.buf, ns.off+i*ns.esz, u.Elem(), x)
			}
			return ns
		}
		s, _ := v.([]Value)
		for i := range s {
			s[i] = it.havocVal(fmt.Sprintf("%s[%d]", name, i), u.Elem(), s[i], seen)
		}
		return v
	case *types.Pointer:
		it.havoc(name, t, v, seen, false)
		return v
	case *types.Interface:
		iv := v.(Iface)
		if iv.t != nil {
			if _, isPtr := iv.t.Underlying().(*types.Pointer); isPtr {
				it.havoc(name, iv.t, iv.v, seen, false)
			}
		}
		return v
	case *types.Map:
		m, _ := v.(*MapObj)
		if m == nil {
			return v
		}
		if _, isPtr := u.Elem().Underlying().(*types.Pointer); !isPtr {
			return v
		}
		if k, _ := basicInfo(u.Key()); k != kString {
			return v
		}
		type kv struct {
			k string
			i int
		}
		var ks []kv
		for _, i := range m.liveIdx() {
			if s, ok := m.keys[i].(string); ok {
				ks = append(ks, kv{s, i})
			}
		}
		sort.Slice(ks, func(a, b int) bool { return ks[a].k < ks[b].k })
		for _, e := range ks {
			it.havoc(fmt.Sprintf("%s[%s]", name, e.k), u.Elem(), m.vals[e.i], seen, false)
		}
		return v
	}
	return v
}
