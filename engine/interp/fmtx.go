package interp

import (
	"fmt"
	"go/token"
	"go/types"
	"strings"

	"golang.org/x/tools/go/ssa"

	"gosmt/term"
)

const (
	tokenADD = token.ADD
	tokenAND = token.AND
	tokenOR  = token.OR
)

// goArg converts an interpreter value (boxed in an interface) to a host Go value for formatting.
func (it *Interp) goArg(v Value) interface{} {
	iv, ok := v.(Iface)
	if !ok {
		return it.goScalar(v, nil)
	}
	if iv.t == nil {
		return nil
	}
	// error / Stringer
	if _, isTerm := iv.v.(*term.Term); !isTerm {
		for _, mname := range []string{"Error", "String"} {
			ms := it.prog.MethodSets.MethodSet(iv.t)
			if sel := ms.Lookup(nil, mname); sel != nil {
				sig := sel.Type().(*types.Signature)
				if sig.Params().Len() == 0 && sig.Results().Len() == 1 {
					if k, _ := basicInfo(sig.Results().At(0).Type()); k == kString {
						if fn := it.prog.MethodValue(sel); fn != nil {
							if s, ok := it.tryCallString(fn, iv.v); ok {
								return s
							}
						}
					}
				}
			}
		}
	}
	return it.goScalar(iv.v, iv.t)
}

func (it *Interp) tryCallString(fn *ssa.Function, recv Value) (s string, ok bool) {
	defer func() {
		if r := recover(); r != nil {
			switch r.(type) {
			case *goPanic, unsupportedErr:
				ok = false
			default:
				panic(r)
			}
		}
	}()
	depth, ns := it.depth, len(it.stack)
	defer func() { it.depth = depth; it.stack = it.stack[:ns] }()
	r := it.call(fn, []Value{recv}, nil)
	switch x := r.(type) {
	case string:
		return x, true
	case SymStr:
		return "<symbolic string>", true
	}
	return "", false
}

func (it *Interp) goScalar(v Value, t types.Type) interface{} {
	switch x := v.(type) {
	case nil:
		return nil
	case bool, string, float64, float32, complex128:
		return x
	case uint64:
		if t != nil {
			k, w := basicInfo(t)
			if k == kInt {
				return sx(x, w)
			}
			if k == kUint && w == 8 {
				return uint8(x)
			}
		}
		return x
	case *term.Term:
		return "<sym>"
	case SymStr:
		return "<symbolic string>"
	case NumSlice:
		if x.esz == 1 && x.buf != nil && !x.buf.hasSym(x.off, x.len) {
			return append([]byte(nil), x.buf.b[x.off:x.off+x.len]...)
		}
		return fmt.Sprintf("<slice len %d>", x.len)
	case []Value:
		out := make([]interface{}, len(x))
		var et types.Type
		if t != nil {
			if st, ok := t.Underlying().(*types.Slice); ok {
				et = st.Elem()
			}
		}
		for i, e := range x {
			if _, isI := e.(Iface); isI {
				out[i] = it.goArg(e)
			} else {
				out[i] = it.goScalar(e, et)
			}
		}
		return out
	case *Value:
		if x == nil {
			return "<nil>"
		}
		return "<ptr>"
	}
	if t != nil {
		return "<" + t.String() + ">"
	}
	return fmt.Sprintf("<%T>", v)
}

func (it *Interp) fmtArgs(args Value) []interface{} {
	as, _ := args.([]Value)
	out := make([]interface{}, len(as))
	for i, a := range as {
		out[i] = it.goArg(a)
	}
	return out
}

func (it *Interp) sprintf(format Value, args Value) Value {
	f, ok := format.(string)
	if !ok {
		return "<symbolic format>"
	}
	f = strings.ReplaceAll(f, "%w", "%v")
	return fmt.Sprintf(f, it.fmtArgs(args)...)
}

func (it *Interp) sprint(args Value, ln bool) Value {
	if ln {
		return fmt.Sprintln(it.fmtArgs(args)...)
	}
	return fmt.Sprint(it.fmtArgs(args)...)
}

// errorf builds an error value: *fmt.wrapError when %w is used with an error operand, else *errors.errorString.
func (it *Interp) errorf(fn *ssa.Function, format Value, args Value) Value {
	msg := it.sprintf(format, args)
	f, _ := format.(string)
	if strings.Contains(f, "%w") {
		as, _ := args.([]Value)
		for _, a := range as {
			if iv, ok := a.(Iface); ok && iv.t != nil && it.implementsError(iv.t) {
				if pkg := it.prog.ImportedPackage("fmt"); pkg != nil {
					if tn := pkg.Type("wrapError"); tn != nil {
						var slot Value = Struct{msg, iv}
						return Iface{t: types.NewPointer(tn.Type()), v: &slot}
					}
				}
			}
		}
	}
	return it.newErrorString(msg)
}

func (it *Interp) newErrorString(msg Value) Value {
	if pkg := it.prog.ImportedPackage("errors"); pkg != nil {
		if tn := pkg.Type("errorString"); tn != nil {
			var slot Value = Struct{msg}
			return Iface{t: it.ptrTo(tn.Type()), v: &slot}
		}
	}
	panic(unsupported("errors.errorString type not loaded"))
}

var ptrTypes = map[types.Type]*types.Pointer{}

func (it *Interp) ptrTo(t types.Type) types.Type {
	it.sh.mu.Lock()
	defer it.sh.mu.Unlock()
	if p, ok := ptrTypes[t]; ok {
		return p
	}
	p := types.NewPointer(t)
	ptrTypes[t] = p
	return p
}

func (it *Interp) implementsError(t types.Type) bool {
	return it.implements(t, it.errorType.Underlying().(*types.Interface))
}
