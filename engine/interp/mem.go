package interp

import (
	"encoding/binary"
	"fmt"
	"go/types"
	"math"

	"gosmt/term"
)

// loadNum reads a value of numeric type t at byte offset off.
func (it *Interp) loadNum(buf *ByteBuf, off int, t types.Type) Value {
	if arr, ok := t.Underlying().(*types.Array); ok {
		n := sizeof(arr)
		if off < 0 || off+n > len(buf.b) {
			panic(it.runtimePanic("load of array out of range of backing store"))
		}
		nb := newBuf(n)
		copyRange(nb, 0, buf, off, n)
		return NumArray{nb}
	}
	k, w := basicInfo(t)
	if k == kOther || k == kString || k == kComplex {
		panic(unsupported("loadNum of " + t.String()))
	}
	n := int(w / 8)
	if off < 0 || off+n > len(buf.b) {
		panic(it.runtimePanic(fmt.Sprintf("unsafe load out of range: off=%d size=%d len=%d", off, n, len(buf.b))))
	}
	if !buf.hasSym(off, n) {
		var v uint64
		switch n {
		case 1:
			v = uint64(buf.b[off])
		case 2:
			v = uint64(binary.LittleEndian.Uint16(buf.b[off:]))
		case 4:
			v = uint64(binary.LittleEndian.Uint32(buf.b[off:]))
		case 8:
			v = binary.LittleEndian.Uint64(buf.b[off:])
		}
		switch k {
		case kBool:
			return v != 0
		case kFloat:
			if w == 32 {
				return math.Float32frombits(uint32(v))
			}
			return math.Float64frombits(v)
		}
		return v
	}
	var r *term.Term
	for i := n - 1; i >= 0; i-- {
		var bt *term.Term
		if s, ok := buf.sym[off+i]; ok {
			bt = s
		} else {
			bt = it.ts.BV(uint64(buf.b[off+i]), 8)
		}
		if r == nil {
			r = bt
		} else {
			r = it.ts.Concat(r, bt)
		}
	}
	if k == kBool {
		return it.boolVal(it.ts.Ne(r, it.ts.BV(0, 8)))
	}
	return it.fromTerm(r, t)
}

func (it *Interp) storeNum(buf *ByteBuf, off int, t types.Type, v Value) {
	if arr, ok := t.Underlying().(*types.Array); ok {
		n := sizeof(arr)
		na := v.(NumArray)
		if off < 0 || off+n > len(buf.b) {
			panic(it.runtimePanic("store of array out of range of backing store"))
		}
		copyRange(buf, off, na.buf, 0, n)
		return
	}
	k, w := basicInfo(t)
	n := int(w / 8)
	if off < 0 || off+n > len(buf.b) {
		panic(it.runtimePanic(fmt.Sprintf("unsafe store out of range: off=%d size=%d len=%d", off, n, len(buf.b))))
	}
	var bits uint64
	switch x := v.(type) {
	case *term.Term:
		if x.W == 0 {
			x = it.ts.BoolToBV(x, 8)
		}
		if int(x.W) != n*8 {
			panic(fmt.Sprintf("storeNum width mismatch: term %d bits into %s", x.W, t))
		}
		for i := 0; i < n; i++ {
			buf.setSym(off+i, it.ts.Extract(x, uint8(8*i+7), uint8(8*i)))
		}
		return
	case bool:
		if x {
			bits = 1
		}
	case uint64:
		bits = x
	case float64:
		bits = math.Float64bits(x)
	case float32:
		bits = uint64(math.Float32bits(x))
	default:
		_ = k
		panic(unsupported(fmt.Sprintf("storeNum of %T into %s", v, t)))
	}
	switch n {
	case 1:
		buf.b[off] = byte(bits)
	case 2:
		binary.LittleEndian.PutUint16(buf.b[off:], uint16(bits))
	case 4:
		binary.LittleEndian.PutUint32(buf.b[off:], uint32(bits))
	case 8:
		binary.LittleEndian.PutUint64(buf.b[off:], bits)
	}
	buf.clearSym(off, n)
}

// load dereferences pointer p whose element type is t.
func (it *Interp) load(p Value, t types.Type) Value {
	switch q := p.(type) {
	case *Value:
		if q == nil {
			panic(it.runtimePanic("invalid memory address or nil pointer dereference"))
		}
		v := *q
		if na, ok := v.(NumArray); ok {
			// the slot may be viewed with a different numeric type through unsafe
			if !isArrayOfSize(t, len(na.buf.b)) {
				return it.loadNum(na.buf, 0, t)
			}
		}
		return it.reinterpret(copyVal(v), t)
	case BytePtr:
		if q.buf == nil {
			panic(it.runtimePanic("invalid memory address or nil pointer dereference"))
		}
		if !isNum(t) {
			panic(unsupported("load of non-numeric type " + t.String() + " from byte storage"))
		}
		return it.loadNum(q.buf, q.off, t)
	case symBytePtr:
		return it.loadSymIdx(q.s, q.idx, t)
	case nil:
		panic(it.runtimePanic("invalid memory address or nil pointer dereference"))
	case poison:
		panic(unsupported("use of value from unsupported initialiser: " + q.why))
	}
	panic(unsupported(fmt.Sprintf("load through %T", p)))
}

func isArrayOfSize(t types.Type, n int) bool {
	a, ok := t.Underlying().(*types.Array)
	return ok && sizeof(a) == n
}

func (it *Interp) store(p Value, t types.Type, v Value) {
	switch q := p.(type) {
	case *Value:
		if q == nil {
			panic(it.runtimePanic("invalid memory address or nil pointer dereference"))
		}
		if na, ok := (*q).(NumArray); ok {
			if _, isArr := v.(NumArray); !isArr {
				it.storeNum(na.buf, 0, t, v)
				return
			}
		}
		assignInPlace(q, v)
		return
	case BytePtr:
		if q.buf == nil {
			panic(it.runtimePanic("invalid memory address or nil pointer dereference"))
		}
		if !isNum(t) {
			panic(unsupported("store of non-numeric type " + t.String() + " to byte storage"))
		}
		it.storeNum(q.buf, q.off, t, v)
		return
	case symBytePtr:
		it.storeSymIdx(q.s, q.idx, t, v)
		return
	case nil:
		panic(it.runtimePanic("invalid memory address or nil pointer dereference"))
	case poison:
		panic(unsupported("use of value from unsupported initialiser: " + q.why))
	}
	panic(unsupported(fmt.Sprintf("store through %T", p)))
}

// ---------- slices ----------

func sliceLen(v Value) int {
	switch s := v.(type) {
	case []Value:
		return len(s)
	case NumSlice:
		return s.len
	case string:
		return len(s)
	case SymStr:
		return s.n
	case nil:
		return 0
	}
	panic(fmt.Sprintf("len of %T", v))
}

func sliceCap(v Value) int {
	switch s := v.(type) {
	case []Value:
		return cap(s)
	case NumSlice:
		return s.cap
	}
	panic(fmt.Sprintf("cap of %T", v))
}

func (it *Interp) makeSlice(elem types.Type, n, c int) Value {
	if isNum(elem) {
		esz := sizeof(elem)
		return NumSlice{buf: newBuf(c * esz), off: 0, len: n, cap: c, esz: esz}
	}
	s := make([]Value, n, c)
	for i := range s {
		s[i] = it.zero(elem)
	}
	// also zero the spare capacity lazily on reslice: keep simple - fill now
	full := s[:c]
	for i := n; i < c; i++ {
		full[i] = it.zero(elem)
	}
	return s
}

// appendSlice implements append(a, b...) where b is a slice (or string for []byte).
func (it *Interp) appendSlice(st *types.Slice, a, b Value) Value {
	if isNum(st.Elem()) {
		as := a.(NumSlice)
		as.esz = sizeof(st.Elem())
		var bb *ByteBuf
		var bo, bn int
		switch x := b.(type) {
		case NumSlice:
			bb, bo, bn = x.buf, x.off, x.len
		case string, SymStr:
			bb, bo, bn = strToBuf(x)
		default:
			panic(fmt.Sprintf("append of %T", b))
		}
		if bn == 0 {
			return as
		}
		esz := as.esz
		if as.len+bn <= as.cap {
			copyRange(as.buf, as.off+as.len*esz, bb, bo, bn*esz)
			as.len += bn
			return as
		}
		nc := as.cap * 2
		if nc < as.len+bn {
			nc = as.len + bn
		}
		if nc < 4 {
			nc = 4
		}
		nb := newBuf(nc * esz)
		if as.buf != nil {
			copyRange(nb, 0, as.buf, as.off, as.len*esz)
		}
		copyRange(nb, as.len*esz, bb, bo, bn*esz)
		return NumSlice{buf: nb, off: 0, len: as.len + bn, cap: nc, esz: esz}
	}
	var as []Value
	if a != nil {
		as = a.([]Value)
	}
	var bs []Value
	if b != nil {
		bs = b.([]Value)
	}
	if len(bs) == 0 {
		return as
	}
	if len(as)+len(bs) <= cap(as) {
		// memmove semantics: the source may overlap the destination (append(s[:i+1], s[i:]...))
		tmp := make([]Value, len(bs))
		for i, e := range bs {
			tmp[i] = copyVal(e)
		}
		r := as[:len(as)+len(bs)]
		copy(r[len(as):], tmp)
		return r
	}
	nc := cap(as) * 2
	if nc < len(as)+len(bs) {
		nc = len(as) + len(bs)
	}
	if nc < 4 {
		nc = 4
	}
	r := make([]Value, len(as)+len(bs), nc)
	copy(r, as)
	for i, e := range bs {
		r[len(as)+i] = copyVal(e)
	}
	full := r[:nc]
	for i := len(r); i < nc; i++ {
		full[i] = it.zero(st.Elem())
	}
	return r
}

func (it *Interp) copySlice(dst, src Value) int {
	switch d := dst.(type) {
	case NumSlice:
		var sb *ByteBuf
		var so, sn int
		esz := d.esz
		switch s := src.(type) {
		case NumSlice:
			sb, so, sn = s.buf, s.off, s.len
		case string, SymStr:
			sb, so, sn = strToBuf(s)
		}
		n := d.len
		if sn < n {
			n = sn
		}
		if n > 0 {
			copyRange(d.buf, d.off, sb, so, n*esz)
		}
		return n
	case []Value:
		s, _ := src.([]Value)
		n := len(d)
		if len(s) < n {
			n = len(s)
		}
		// overlap-safe
		tmp := make([]Value, n)
		for i := 0; i < n; i++ {
			tmp[i] = copyVal(s[i])
		}
		copy(d, tmp)
		return n
	case nil:
		return 0
	}
	panic(fmt.Sprintf("copy into %T", dst))
}

// reinterpret adjusts a scalar loaded from a slot to the static type of the load (a slot written
// as float64 and read through (*uint64)(unsafe.Pointer(&f)) and the like).
func (it *Interp) reinterpret(v Value, t types.Type) Value {
	k, w := basicInfo(t)
	switch x := v.(type) {
	case NumSlice:
		// *(*string)(unsafe.Pointer(&byteSlice))
		if k == kString && x.esz == 1 {
			if x.buf == nil || x.len == 0 {
				return ""
			}
			return normStr(SymStr{x.buf, x.off, x.len})
		}
	case string, SymStr:
		// *(*[]byte)(unsafe.Pointer(&str))
		if sl, ok := t.Underlying().(*types.Slice); ok {
			if _, ew := basicInfo(sl.Elem()); ew == 8 {
				b, o, n := strToBuf(x)
				return NumSlice{buf: b, off: o, len: n, cap: n, esz: 1}
			}
		}
	case float64:
		if k == kInt || k == kUint {
			return math.Float64bits(x) & mask(w)
		}
	case float32:
		if k == kInt || k == kUint {
			return uint64(math.Float32bits(x))
		}
	case uint64:
		if k == kFloat {
			if w == 32 {
				return math.Float32frombits(uint32(x))
			}
			return math.Float64frombits(x)
		}
		if k == kBool {
			return x != 0
		}
	case bool:
		if k == kInt || k == kUint {
			if x {
				return uint64(1)
			}
			return uint64(0)
		}
	}
	return v
}

// assignInPlace stores v into the slot. Aggregates are overwritten cell by cell so that addresses
// of fields/elements taken before the store stay valid (as in real memory).
func assignInPlace(slot *Value, v Value) {
	switch nv := v.(type) {
	case Struct:
		if old, ok := (*slot).(Struct); ok && len(old) == len(nv) {
			for i := range nv {
				assignInPlace(&old[i], nv[i])
			}
			return
		}
	case Array:
		if old, ok := (*slot).(Array); ok && len(old) == len(nv) {
			for i := range nv {
				assignInPlace(&old[i], nv[i])
			}
			return
		}
	case NumArray:
		if old, ok := (*slot).(NumArray); ok && len(old.buf.b) == len(nv.buf.b) {
			copyRange(old.buf, 0, nv.buf, 0, len(nv.buf.b))
			return
		}
	}
	*slot = copyVal(v)
}
