package interp

import (
	"fmt"
	"go/token"
	"go/types"
	"math"
	"unicode/utf8"

	"gosmt/term"
)

// binop evaluates x op y where both operands have static type t (shifts: y has type ty).
func (it *Interp) binop(op token.Token, t types.Type, ty types.Type, x, y Value) Value {
	k, w := basicInfo(t)
	switch op {
	case token.EQL:
		return it.equals(t, x, y)
	case token.NEQ:
		return it.notVal(it.equals(t, x, y))
	}
	switch k {
	case kString:
		switch op {
		case token.ADD:
			return it.strConcat(x, y)
		case token.LSS:
			return it.strLess(x, y)
		case token.GTR:
			return it.strLess(y, x)
		case token.LEQ:
			return it.notVal(it.strLess(y, x))
		case token.GEQ:
			return it.notVal(it.strLess(x, y))
		}
	case kBool:
		// &^, & etc. are not defined on bools in SSA (And/Or are lowered to control flow)
	case kInt, kUint:
		if op == token.SHL || op == token.SHR {
			return it.shift(op, k, w, ty, x, y)
		}
		xs, xsym := x.(*term.Term)
		ys, ysym := y.(*term.Term)
		if !xsym && !ysym {
			return it.intBinConc(op, k, w, x.(uint64), y.(uint64))
		}
		if !xsym {
			xs = it.ts.BV(x.(uint64), w)
		}
		if !ysym {
			ys = it.ts.BV(y.(uint64), w)
		}
		return it.intBinSym(op, k, w, xs, ys, t)
	case kFloat:
		_, xsym := x.(*term.Term)
		_, ysym := y.(*term.Term)
		if !xsym && !ysym {
			if w == 32 {
				a, b := x.(float32), y.(float32)
				switch op {
				case token.ADD:
					return a + b
				case token.SUB:
					return a - b
				case token.MUL:
					return a * b
				case token.QUO:
					return a / b
				case token.LSS:
					return a < b
				case token.LEQ:
					return a <= b
				case token.GTR:
					return a > b
				case token.GEQ:
					return a >= b
				}
			} else {
				a, b := x.(float64), y.(float64)
				switch op {
				case token.ADD:
					return a + b
				case token.SUB:
					return a - b
				case token.MUL:
					return a * b
				case token.QUO:
					return a / b
				case token.LSS:
					return a < b
				case token.LEQ:
					return a <= b
				case token.GTR:
					return a > b
				case token.GEQ:
					return a >= b
				}
			}
			panic(unsupported("float op " + op.String()))
		}
		a, b := it.toTerm(x, t), it.toTerm(y, t)
		switch op {
		case token.ADD:
			return it.ts.FBin(term.OpFAdd, a, b)
		case token.SUB:
			return it.ts.FBin(term.OpFSub, a, b)
		case token.MUL:
			return it.ts.FBin(term.OpFMul, a, b)
		case token.QUO:
			return it.ts.FBin(term.OpFDiv, a, b)
		case token.LSS:
			return it.boolVal(it.ts.FCmp(term.OpFLt, a, b))
		case token.LEQ:
			return it.boolVal(it.ts.FCmp(term.OpFLe, a, b))
		case token.GTR:
			return it.boolVal(it.ts.FCmp(term.OpFLt, b, a))
		case token.GEQ:
			return it.boolVal(it.ts.FCmp(term.OpFLe, b, a))
		}
	case kComplex:
		a, b := x.(complex128), y.(complex128)
		switch op {
		case token.ADD:
			return a + b
		case token.SUB:
			return a - b
		case token.MUL:
			return a * b
		case token.QUO:
			return a / b
		}
	}
	panic(unsupported(fmt.Sprintf("binop %s on %s (%T,%T)", op, t, x, y)))
}

func (it *Interp) intBinConc(op token.Token, k skind, w uint8, x, y uint64) Value {
	m := mask(w)
	signed := k == kInt
	switch op {
	case token.ADD:
		return (x + y) & m
	case token.SUB:
		return (x - y) & m
	case token.MUL:
		return (x * y) & m
	case token.QUO:
		if y == 0 {
			panic(it.runtimePanic("integer divide by zero"))
		}
		if signed {
			a, b := sx(x, w), sx(y, w)
			if b == -1 {
				return uint64(-a) & m
			}
			return uint64(a/b) & m
		}
		return x / y
	case token.REM:
		if y == 0 {
			panic(it.runtimePanic("integer divide by zero"))
		}
		if signed {
			a, b := sx(x, w), sx(y, w)
			if b == -1 {
				return uint64(0)
			}
			return uint64(a%b) & m
		}
		return x % y
	case token.AND:
		return x & y
	case token.OR:
		return x | y
	case token.XOR:
		return x ^ y
	case token.AND_NOT:
		return x &^ y
	case token.LSS:
		if signed {
			return sx(x, w) < sx(y, w)
		}
		return x < y
	case token.LEQ:
		if signed {
			return sx(x, w) <= sx(y, w)
		}
		return x <= y
	case token.GTR:
		if signed {
			return sx(x, w) > sx(y, w)
		}
		return x > y
	case token.GEQ:
		if signed {
			return sx(x, w) >= sx(y, w)
		}
		return x >= y
	}
	panic(unsupported("int op " + op.String()))
}

func (it *Interp) intBinSym(op token.Token, k skind, w uint8, x, y *term.Term, t types.Type) Value {
	ts := it.ts
	signed := k == kInt
	switch op {
	case token.ADD:
		return it.fromTerm(ts.Add(x, y), t)
	case token.SUB:
		return it.fromTerm(ts.Sub(x, y), t)
	case token.MUL:
		return it.fromTerm(ts.Mul(x, y), t)
	case token.QUO, token.REM:
		if !y.IsConst() {
			if it.branch(ts.Eq(y, ts.BV(0, w))) {
				panic(it.runtimePanic("integer divide by zero"))
			}
		} else if y.C == 0 {
			panic(it.runtimePanic("integer divide by zero"))
		}
		if signed {
			// Go: MinInt / -1 = MinInt, MinInt % -1 = 0 ; bvsdiv/bvsrem agree.
			if op == token.QUO {
				return it.fromTerm(ts.SDiv(x, y), t)
			}
			return it.fromTerm(ts.SRem(x, y), t)
		}
		if op == token.QUO {
			return it.fromTerm(ts.UDiv(x, y), t)
		}
		return it.fromTerm(ts.URem(x, y), t)
	case token.AND:
		return it.fromTerm(ts.BvAnd(x, y), t)
	case token.OR:
		return it.fromTerm(ts.BvOr(x, y), t)
	case token.XOR:
		return it.fromTerm(ts.BvXor(x, y), t)
	case token.AND_NOT:
		return it.fromTerm(ts.BvAnd(x, ts.BvNot(y)), t)
	case token.LSS:
		if signed {
			return it.boolVal(ts.Slt(x, y))
		}
		return it.boolVal(ts.Ult(x, y))
	case token.LEQ:
		if signed {
			return it.boolVal(ts.Sle(x, y))
		}
		return it.boolVal(ts.Ule(x, y))
	case token.GTR:
		if signed {
			return it.boolVal(ts.Slt(y, x))
		}
		return it.boolVal(ts.Ult(y, x))
	case token.GEQ:
		if signed {
			return it.boolVal(ts.Sle(y, x))
		}
		return it.boolVal(ts.Ule(y, x))
	}
	panic(unsupported("sym int op " + op.String()))
}

func (it *Interp) shift(op token.Token, k skind, w uint8, ty types.Type, x, y Value) Value {
	yk, yw := basicInfo(ty)
	xs, xsym := x.(*term.Term)
	ys, ysym := y.(*term.Term)
	if !ysym {
		yv := y.(uint64)
		if yk == kInt && sx(yv, yw) < 0 {
			panic(it.runtimePanic("negative shift amount"))
		}
		if !xsym {
			xv := x.(uint64)
			if op == token.SHL {
				if yv >= uint64(w) {
					return uint64(0)
				}
				return (xv << yv) & mask(w)
			}
			if k == kInt {
				if yv >= uint64(w) {
					yv = uint64(w) - 1
				}
				return uint64(sx(xv, w)>>yv) & mask(w)
			}
			if yv >= uint64(w) {
				return uint64(0)
			}
			return xv >> yv
		}
		if yv > 255 {
			yv = 255
		}
		c := it.ts.BV(yv, w)
		if yv >= uint64(w) {
			c = it.ts.BV(uint64(w), w) // any count >= w; bvshl/bvlshr give 0, ashr saturates
		}
		if op == token.SHL {
			return it.ts.Shl(xs, c)
		}
		if k == kInt {
			return it.ts.Ashr(xs, c)
		}
		return it.ts.Lshr(xs, c)
	}
	// symbolic shift count
	if yk == kInt {
		if it.branch(it.ts.Slt(ys, it.ts.BV(0, yw))) {
			panic(it.runtimePanic("negative shift amount"))
		}
	}
	if !xsym {
		xs = it.ts.BV(x.(uint64), w)
	}
	// bring count to width w, saturating
	var c *term.Term
	if yw > w {
		big := it.ts.Ule(it.ts.BV(uint64(w), yw), ys)
		c = it.ts.Ite(big, it.ts.BV(uint64(w), w), it.ts.Extract(ys, w-1, 0))
	} else {
		c = it.ts.Zext(ys, w)
	}
	var r *term.Term
	switch {
	case op == token.SHL:
		r = it.ts.Shl(xs, c)
	case k == kInt:
		r = it.ts.Ashr(xs, c)
	default:
		r = it.ts.Lshr(xs, c)
	}
	return it.fromTerm(r, types.Typ[types.Uint64])
}

func (it *Interp) notVal(v Value) Value {
	switch x := v.(type) {
	case bool:
		return !x
	case *term.Term:
		return it.boolVal(it.ts.Not(x))
	}
	panic("notVal")
}

func (it *Interp) andVal(a, b Value) Value {
	if x, ok := a.(bool); ok {
		if !x {
			return false
		}
		return b
	}
	if y, ok := b.(bool); ok {
		if !y {
			return false
		}
		return a
	}
	return it.boolVal(it.ts.And(a.(*term.Term), b.(*term.Term)))
}

// equals implements == for any comparable type; result is bool or Bool term.
func (it *Interp) equals(t types.Type, x, y Value) Value {
	switch u := t.Underlying().(type) {
	case *types.Basic:
		k, _ := basicInfo(u)
		switch k {
		case kString:
			return it.strEq(x, y)
		case kFloat:
			_, xs := x.(*term.Term)
			_, ys := y.(*term.Term)
			if !xs && !ys {
				if a, ok := x.(float64); ok {
					return a == y.(float64)
				}
				return x.(float32) == y.(float32)
			}
			return it.boolVal(it.ts.FCmp(term.OpFEq, it.toTerm(x, t), it.toTerm(y, t)))
		case kBool, kInt, kUint:
			_, xs := x.(*term.Term)
			_, ys := y.(*term.Term)
			if !xs && !ys {
				return x == y
			}
			return it.boolVal(it.ts.Eq(it.toTerm(x, t), it.toTerm(y, t)))
		case kUnsafePtr:
			return ptrEq(x, y)
		case kComplex:
			return x.(complex128) == y.(complex128)
		}
		if u.Kind() == types.UntypedNil {
			return true
		}
	case *types.Pointer:
		return ptrEq(x, y)
	case *types.Chan, *types.Map:
		return x == y
	case *types.Signature:
		// only comparison with nil is legal
		return x == nil && y == nil
	case *types.Slice:
		// only nil comparisons
		return isNilSlice(x) && isNilSlice(y)
	case *types.Interface:
		xi, yi := x.(Iface), y.(Iface)
		if xi.t == nil || yi.t == nil {
			return xi.t == nil && yi.t == nil
		}
		if !types.Identical(xi.t, yi.t) {
			return false
		}
		if !types.Comparable(xi.t) {
			panic(it.runtimePanic("comparing uncomparable type " + xi.t.String()))
		}
		return it.equals(xi.t, xi.v, yi.v)
	case *types.Struct:
		xs, ys := x.(Struct), y.(Struct)
		var r Value = true
		for i := 0; i < u.NumFields(); i++ {
			if u.Field(i).Name() == "_" {
				continue
			}
			r = it.andVal(r, it.equals(u.Field(i).Type(), xs[i], ys[i]))
			if b, ok := r.(bool); ok && !b {
				return false
			}
		}
		return r
	case *types.Array:
		if xa, ok := x.(NumArray); ok {
			ya := y.(NumArray)
			var r Value = true
			esz := sizeof(u.Elem())
			for i := 0; i < int(u.Len()); i++ {
				a := it.loadNum(xa.buf, i*esz, u.Elem())
				b := it.loadNum(ya.buf, i*esz, u.Elem())
				r = it.andVal(r, it.equals(u.Elem(), a, b))
			}
			return r
		}
		xs, ys := x.(Array), y.(Array)
		var r Value = true
		for i := range xs {
			r = it.andVal(r, it.equals(u.Elem(), xs[i], ys[i]))
		}
		return r
	}
	panic(unsupported(fmt.Sprintf("equals on %s (%T)", t, x)))
}

func isNilSlice(v Value) bool {
	switch s := v.(type) {
	case []Value:
		return s == nil
	case NumSlice:
		return s.buf == nil
	}
	return v == nil
}

func isNilPtr(v Value) bool {
	switch p := v.(type) {
	case *Value:
		return p == nil
	case BytePtr:
		return p.buf == nil
	case nil:
		return true
	}
	return false
}

func ptrEq(x, y Value) bool {
	if isNilPtr(x) || isNilPtr(y) {
		return isNilPtr(x) && isNilPtr(y)
	}
	return x == y
}

func (it *Interp) unop(op token.Token, t types.Type, x Value) Value {
	k, w := basicInfo(t)
	switch op {
	case token.NOT:
		return it.notVal(x)
	case token.SUB:
		switch k {
		case kInt, kUint:
			if s, ok := x.(*term.Term); ok {
				return it.ts.Neg(s)
			}
			return (-x.(uint64)) & mask(w)
		case kFloat:
			switch f := x.(type) {
			case float64:
				return -f
			case float32:
				return -f
			case *term.Term:
				return it.ts.FNeg(f)
			}
		case kComplex:
			return -x.(complex128)
		}
	case token.XOR:
		if s, ok := x.(*term.Term); ok {
			return it.ts.BvNot(s)
		}
		return (^x.(uint64)) & mask(w)
	}
	panic(unsupported(fmt.Sprintf("unop %s on %s", op, t)))
}

// conv implements ssa.Convert from type ts to td.
func (it *Interp) conv(tsrc, tdst types.Type, x Value) Value {
	us, ud := tsrc.Underlying(), tdst.Underlying()
	sk, sw := basicInfo(us)
	dk, dw := basicInfo(ud)
	switch {
	case (sk == kInt || sk == kUint) && (dk == kInt || dk == kUint):
		if s, ok := x.(*term.Term); ok {
			return it.fromTerm(it.ts.Resize(s, dw, sk == kInt), tdst)
		}
		v := x.(uint64)
		if sk == kInt {
			v = uint64(sx(v, sw))
		}
		return v & mask(dw)
	case (sk == kInt || sk == kUint) && dk == kFloat:
		if s, ok := x.(*term.Term); ok {
			return it.ts.IToF(s, sk == kInt, dw)
		}
		v := x.(uint64)
		if sk == kInt {
			if dw == 32 {
				return float32(sx(v, sw))
			}
			return float64(sx(v, sw))
		}
		if dw == 32 {
			return float32(v)
		}
		return float64(v)
	case sk == kFloat && (dk == kInt || dk == kUint):
		if s, ok := x.(*term.Term); ok {
			return it.fromTerm(it.fToISym(s, dk == kInt, dw), tdst)
		}
		var f float64
		if sw == 32 {
			f = float64(x.(float32))
		} else {
			f = x.(float64)
		}
		return fToIConc(f, dk == kInt, dw)
	case sk == kFloat && dk == kFloat:
		if s, ok := x.(*term.Term); ok {
			return it.ts.FCvt(s, dw)
		}
		if sw == 32 {
			if dw == 32 {
				return x
			}
			return float64(x.(float32))
		}
		if dw == 32 {
			return float32(x.(float64))
		}
		return x
	case sk == kString && dk == kString:
		return x
	case sk == kUnsafePtr || dk == kUnsafePtr:
		// pointer <-> unsafe.Pointer <-> uintptr: keep the pointer value
		return x
	case dk == kString:
		// []byte, []rune, integer -> string
		if sk == kInt || sk == kUint {
			v, ok := x.(uint64)
			if !ok {
				panic(unsupported("string(symbolic rune)"))
			}
			return string(rune(sx(v, sw)))
		}
		if sl, ok := us.(*types.Slice); ok {
			ek, ew := basicInfo(sl.Elem())
			_ = ek
			ns := x.(NumSlice)
			if ew == 8 {
				if ns.len == 0 {
					return ""
				}
				nb := newBuf(ns.len)
				copyRange(nb, 0, ns.buf, ns.off, ns.len)
				return normStr(SymStr{nb, 0, ns.len})
			}
			// []rune
			rs := make([]rune, ns.len)
			for i := range rs {
				v, ok := it.loadNum(ns.buf, ns.off+i*4, sl.Elem()).(uint64)
				if !ok {
					panic(unsupported("string([]rune) symbolic"))
				}
				rs[i] = rune(int32(v))
			}
			return string(rs)
		}
	case sk == kString:
		if sl, ok := ud.(*types.Slice); ok {
			_, ew := basicInfo(sl.Elem())
			if ew == 8 {
				b, o, n := strToBuf(x)
				nb := newBuf(n)
				copyRange(nb, 0, b, o, n)
				return NumSlice{buf: nb, off: 0, len: n, cap: n, esz: 1}
			}
			s, ok := x.(string)
			if !ok {
				panic(unsupported("[]rune(symbolic string)"))
			}
			rs := []rune(s)
			nb := newBuf(4 * len(rs))
			for i, r := range rs {
				it.storeNum(nb, i*4, sl.Elem(), uint64(uint32(r)))
			}
			return NumSlice{buf: nb, len: len(rs), cap: len(rs), esz: 4}
		}
	case sk == kComplex && dk == kComplex:
		return x
	}
	// pointer-to-pointer conversions (through unsafe) and identical underlying types
	switch ud.(type) {
	case *types.Pointer:
		return x
	}
	panic(unsupported(fmt.Sprintf("convert %s -> %s", tsrc, tdst)))
}

func fToIConc(f float64, signed bool, w uint8) Value {
	if signed {
		switch w {
		case 64:
			return uint64(int64(f))
		case 32:
			return uint64(uint32(int32(f)))
		case 16:
			return uint64(uint16(int16(f)))
		case 8:
			return uint64(uint8(int8(f)))
		}
	}
	switch w {
	case 64:
		return uint64(f)
	case 32:
		return uint64(uint32(f))
	case 16:
		return uint64(uint16(f))
	case 8:
		return uint64(uint8(f))
	}
	panic("fToIConc")
}

// fToISym: amd64 semantics. Signed 64: CVTTSD2SQ gives 0x8000000000000000 when out of range or NaN.
// Narrower signed/unsigned results are truncations of the 64-bit (resp. 32-bit) conversion as the gc
// compiler emits them; uint64 uses the two-range sequence.
func (it *Interp) fToISym(x *term.Term, signed bool, w uint8) *term.Term {
	ts := it.ts
	if x.W == 32 {
		x = ts.FCvt(x, 64)
	}
	cvt64 := func(v *term.Term) *term.Term {
		lo := ts.BV(math.Float64bits(-9223372036854775808.0), 64)
		hi := ts.BV(math.Float64bits(9223372036854775808.0), 64)
		in := ts.And(ts.FCmp(term.OpFLe, lo, v), ts.FCmp(term.OpFLt, v, hi))
		return ts.Ite(in, ts.FToI(v, true, 64), ts.BV(1<<63, 64))
	}
	if signed {
		if w == 32 {
			lo := ts.BV(math.Float64bits(-2147483649.0), 64)
			hi := ts.BV(math.Float64bits(2147483648.0), 64)
			in := ts.And(ts.FCmp(term.OpFLt, lo, x), ts.FCmp(term.OpFLt, x, hi))
			return ts.Ite(in, ts.Extract(ts.FToI(x, true, 64), 31, 0), ts.BV(1<<31, 32))
		}
		r := cvt64(x)
		if w < 64 {
			return ts.Extract(r, w-1, 0)
		}
		return r
	}
	if w == 64 {
		two63 := ts.BV(math.Float64bits(9223372036854775808.0), 64)
		small := ts.FCmp(term.OpFLt, x, two63)
		a := cvt64(x)
		b := ts.BvXor(cvt64(ts.FBin(term.OpFSub, x, two63)), ts.BV(1<<63, 64))
		// NaN: comparison false -> second branch: cvt64(NaN)=1<<63 ^ 1<<63 = 0? gc yields 0x8000000000000000
		return ts.Ite(ts.FIsNaN(x), ts.BV(1<<63, 64), ts.Ite(small, a, b))
	}
	r := cvt64(x)
	return ts.Extract(r, w-1, 0)
}

// ---------- rune iteration over strings ----------

// nextRune decodes the rune at s[i:]; symbolic bytes are handled for ASCII only.
func (it *Interp) nextRune(s Value, i int) (Value, int) {
	switch str := s.(type) {
	case string:
		r, n := utf8.DecodeRuneInString(str[i:])
		return uint64(uint32(r)), n
	case SymStr:
		b := it.strByte(s, i)
		if t, ok := b.(*term.Term); ok {
			if it.branch(it.ts.Ult(t, it.ts.BV(0x80, 8))) {
				return it.ts.Zext(t, 32), 1
			}
			panic(unsupported("range over string with symbolic non-ASCII byte"))
		}
		c := byte(b.(uint64))
		if c < 0x80 {
			return uint64(c), 1
		}
		// need all continuation bytes concrete
		n := 1
		switch {
		case c >= 0xf0:
			n = 4
		case c >= 0xe0:
			n = 3
		case c >= 0xc0:
			n = 2
		}
		if i+n > str.n {
			n = str.n - i
		}
		buf := make([]byte, n)
		for j := 0; j < n; j++ {
			bv, ok := it.strByte(s, i+j).(uint64)
			if !ok {
				panic(unsupported("range over string with symbolic continuation byte"))
			}
			buf[j] = byte(bv)
		}
		r, sz := utf8.DecodeRune(buf)
		return uint64(uint32(r)), sz
	}
	panic("nextRune")
}
