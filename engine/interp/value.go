// Package interp is a bounded symbolic executor for Go SSA (golang.org/x/tools/go/ssa).
//
// Concrete scalars are kept in native Go form (all integer kinds as uint64 bit patterns masked to
// their width, bool, float32/64, string); symbolic scalars are *term.Term (Bool or bit-vector;
// symbolic floats are carried as their IEEE bit patterns). Memory for numeric data is
// byte-granular (ByteBuf) so that unsafe re-interpretation of []byte as []int64 etc. is exact.
package interp

import (
	"fmt"
	"go/types"
	"math"
	"sort"
	"strings"

	"golang.org/x/tools/go/ssa"

	"gosmt/term"
)

type Value = interface{}

type Sym = *term.Term

// ByteBuf is byte-granular storage. sym overrides b where present.
type ByteBuf struct {
	b   []byte
	sym map[int]*term.Term
}

func newBuf(n int) *ByteBuf { return &ByteBuf{b: make([]byte, n)} }

func (bb *ByteBuf) hasSym(off, n int) bool {
	if len(bb.sym) == 0 {
		return false
	}
	if n > len(bb.sym)*2 {
		for k := range bb.sym {
			if k >= off && k < off+n {
				return true
			}
		}
		return false
	}
	for i := off; i < off+n; i++ {
		if _, ok := bb.sym[i]; ok {
			return true
		}
	}
	return false
}

func (bb *ByteBuf) setSym(i int, t *term.Term) {
	if t.IsConst() {
		bb.b[i] = byte(t.C)
		if bb.sym != nil {
			delete(bb.sym, i)
		}
		return
	}
	if bb.sym == nil {
		bb.sym = map[int]*term.Term{}
	}
	bb.sym[i] = t
}

func (bb *ByteBuf) clearSym(off, n int) {
	if len(bb.sym) == 0 {
		return
	}
	if n > len(bb.sym)*2 {
		for k := range bb.sym {
			if k >= off && k < off+n {
				delete(bb.sym, k)
			}
		}
		return
	}
	for i := off; i < off+n; i++ {
		delete(bb.sym, i)
	}
}

// copyRange copies n bytes from (src,so) to (dst,do), handling overlap.
func copyRange(dst *ByteBuf, do int, src *ByteBuf, so int, n int) {
	if n <= 0 {
		return
	}
	if len(src.sym) == 0 {
		copy(dst.b[do:do+n], src.b[so:so+n])
		dst.clearSym(do, n)
		return
	}
	// collect source symbols first (overlap safety)
	type kv struct {
		i int
		t *term.Term
	}
	var syms []kv
	if n > len(src.sym)*2 {
		for k, t := range src.sym {
			if k >= so && k < so+n {
				syms = append(syms, kv{k - so, t})
			}
		}
	} else {
		for i := 0; i < n; i++ {
			if t, ok := src.sym[so+i]; ok {
				syms = append(syms, kv{i, t})
			}
		}
	}
	copy(dst.b[do:do+n], src.b[so:so+n])
	dst.clearSym(do, n)
	for _, e := range syms {
		dst.setSym(do+e.i, e.t)
	}
}

// NumSlice is a slice whose element type is numeric (bool/int*/uint*/float* or arrays of those).
type NumSlice struct {
	buf      *ByteBuf
	off      int // byte offset
	len, cap int // in elements
	esz      int
}

// BytePtr is a pointer into numeric storage.
type BytePtr struct {
	buf *ByteBuf
	off int
}

// NumArray is an array value of numeric element type; it owns buf entirely.
type NumArray struct {
	buf *ByteBuf
}

type Struct []Value
type Array []Value
type Tuple []Value

type Iface struct {
	t types.Type
	v Value
}

type Closure struct {
	Fn  *ssa.Function
	Env []Value
}

// SymStr is a string with at least one symbolic byte (immutable by convention).
type SymStr struct {
	buf *ByteBuf
	off int
	n   int
}

// MapObj is a Go map. Entries are kept in insertion order.
type MapObj struct {
	keys    []Value
	vals    []Value
	live    []bool
	idx     map[interface{}]int // hashable concrete keys
	n       int
	hasSymK bool
}

type ChanObj struct {
	cap    int
	q      []Value
	closed bool
	// rendezvous for unbuffered channels is emulated with capacity-0 handoff by the scheduler
	recvWaiting int
	recvCount   int
}

type RangeIter struct {
	m    *MapObj
	keys []int // snapshot of entry indices
	pos  int
	s    Value // string
	i    int
}

// poison marks a value produced by an unsupported operation during package initialisation.
type poison struct{ why string }

// ---------- type classification ----------

type skind uint8

const (
	kOther skind = iota
	kBool
	kInt
	kUint
	kFloat
	kString
	kComplex
	kUnsafePtr
)

func basicInfo(t types.Type) (skind, uint8) {
	b, ok := t.Underlying().(*types.Basic)
	if !ok {
		if tp, ok := t.Underlying().(*types.TypeParam); ok {
			_ = tp
		}
		return kOther, 0
	}
	switch b.Kind() {
	case types.Bool, types.UntypedBool:
		return kBool, 8
	case types.Int, types.Int64, types.UntypedInt:
		return kInt, 64
	case types.Int8:
		return kInt, 8
	case types.Int16:
		return kInt, 16
	case types.Int32, types.UntypedRune:
		return kInt, 32
	case types.Uint, types.Uint64, types.Uintptr:
		return kUint, 64
	case types.Uint8:
		return kUint, 8
	case types.Uint16:
		return kUint, 16
	case types.Uint32:
		return kUint, 32
	case types.Float32:
		return kFloat, 32
	case types.Float64, types.UntypedFloat:
		return kFloat, 64
	case types.String, types.UntypedString:
		return kString, 0
	case types.Complex64, types.Complex128, types.UntypedComplex:
		return kComplex, 128
	case types.UnsafePointer:
		return kUnsafePtr, 64
	}
	return kOther, 0
}

// isNum reports whether values of t live in byte-granular storage when they are slice/array elements.
func isNum(t types.Type) bool {
	switch u := t.Underlying().(type) {
	case *types.Basic:
		k, _ := basicInfo(u)
		return k == kBool || k == kInt || k == kUint || k == kFloat
	case *types.Array:
		return isNum(u.Elem())
	}
	return false
}

var sizes = types.SizesFor("gc", "amd64")

func sizeof(t types.Type) int { return int(sizes.Sizeof(t)) }

func mask(w uint8) uint64 {
	if w >= 64 {
		return ^uint64(0)
	}
	return (uint64(1) << w) - 1
}

func sx(v uint64, w uint8) int64 {
	if w >= 64 {
		return int64(v)
	}
	sh := 64 - uint(w)
	return int64(v<<sh) >> sh
}

// ---------- zero values, copying ----------

func (it *Interp) zero(t types.Type) Value {
	switch u := t.Underlying().(type) {
	case *types.Basic:
		k, _ := basicInfo(u)
		switch k {
		case kBool:
			return false
		case kInt, kUint:
			return uint64(0)
		case kFloat:
			if u.Kind() == types.Float32 {
				return float32(0)
			}
			return float64(0)
		case kString:
			return ""
		case kUnsafePtr:
			return (*Value)(nil)
		case kComplex:
			return complex128(0)
		}
		if u.Kind() == types.UntypedNil {
			return nil
		}
		panic(unsupported("zero of basic " + u.String()))
	case *types.Pointer:
		return (*Value)(nil)
	case *types.Slice:
		if isNum(u.Elem()) {
			return NumSlice{esz: sizeof(u.Elem())}
		}
		return []Value(nil)
	case *types.Map:
		return (*MapObj)(nil)
	case *types.Chan:
		return (*ChanObj)(nil)
	case *types.Signature:
		return nil
	case *types.Interface:
		return Iface{}
	case *types.Struct:
		s := make(Struct, u.NumFields())
		for i := range s {
			s[i] = it.zero(u.Field(i).Type())
		}
		return s
	case *types.Array:
		if isNum(u) {
			return NumArray{newBuf(sizeof(u))}
		}
		a := make(Array, u.Len())
		for i := range a {
			a[i] = it.zero(u.Elem())
		}
		return a
	case *types.Tuple:
		tt := make(Tuple, u.Len())
		for i := range tt {
			tt[i] = it.zero(u.At(i).Type())
		}
		return tt
	}
	panic(unsupported("zero of " + t.String()))
}

func copyVal(v Value) Value {
	switch x := v.(type) {
	case Struct:
		c := make(Struct, len(x))
		for i, e := range x {
			c[i] = copyVal(e)
		}
		return c
	case Array:
		c := make(Array, len(x))
		for i, e := range x {
			c[i] = copyVal(e)
		}
		return c
	case NumArray:
		nb := newBuf(len(x.buf.b))
		copyRange(nb, 0, x.buf, 0, len(x.buf.b))
		return NumArray{nb}
	}
	return v
}

// ---------- scalar helpers ----------

func isSym(v Value) bool { _, ok := v.(*term.Term); return ok }

// toTerm converts a scalar value of static type t to a term (Bool for bool, BV otherwise).
func (it *Interp) toTerm(v Value, t types.Type) *term.Term {
	switch x := v.(type) {
	case *term.Term:
		return x
	case bool:
		return it.ts.Bool(x)
	case uint64:
		_, w := basicInfo(t)
		if w == 0 {
			w = 64
		}
		return it.ts.BV(x, w)
	case float64:
		return it.ts.BV(math.Float64bits(x), 64)
	case float32:
		return it.ts.BV(uint64(math.Float32bits(x)), 32)
	}
	panic(unsupported(fmt.Sprintf("toTerm of %T (%v)", v, t)))
}

// fromTerm turns a constant term back into a native value of type t; non-constants stay terms.
func (it *Interp) fromTerm(x *term.Term, t types.Type) Value {
	if !x.IsConst() {
		return x
	}
	k, w := basicInfo(t)
	switch k {
	case kBool:
		if x.W != 0 {
			return x.C != 0
		}
		return x.C != 0
	case kInt, kUint, kUnsafePtr:
		return x.C & mask(w)
	case kFloat:
		if w == 32 {
			return math.Float32frombits(uint32(x.C))
		}
		return math.Float64frombits(x.C)
	}
	if x.W == 0 {
		return x.C != 0
	}
	return x.C
}

// ---------- strings ----------

func strLen(v Value) int {
	switch s := v.(type) {
	case string:
		return len(s)
	case SymStr:
		return s.n
	}
	panic(fmt.Sprintf("strLen of %T", v))
}

// strByte returns byte i as uint64 or 8-bit term.
func (it *Interp) strByte(v Value, i int) Value {
	switch s := v.(type) {
	case string:
		return uint64(s[i])
	case SymStr:
		if t, ok := s.buf.sym[s.off+i]; ok {
			return t
		}
		return uint64(s.buf.b[s.off+i])
	}
	panic("strByte")
}

func (it *Interp) strSlice(v Value, lo, hi int) Value {
	switch s := v.(type) {
	case string:
		return s[lo:hi]
	case SymStr:
		return normStr(SymStr{s.buf, s.off + lo, hi - lo})
	}
	panic("strSlice")
}

// normStr returns a Go string when no byte of s is symbolic.
func normStr(s SymStr) Value {
	if s.n == 0 {
		return ""
	}
	if !s.buf.hasSym(s.off, s.n) {
		return string(s.buf.b[s.off : s.off+s.n])
	}
	return s
}

func strToBuf(v Value) (*ByteBuf, int, int) {
	switch s := v.(type) {
	case string:
		return &ByteBuf{b: []byte(s)}, 0, len(s)
	case SymStr:
		return s.buf, s.off, s.n
	}
	panic(fmt.Sprintf("strToBuf of %T", v))
}

func (it *Interp) strConcat(a, b Value) Value {
	as, aok := a.(string)
	bs, bok := b.(string)
	if aok && bok {
		return as + bs
	}
	ab, ao, an := strToBuf(a)
	bb, bo, bn := strToBuf(b)
	nb := newBuf(an + bn)
	copyRange(nb, 0, ab, ao, an)
	copyRange(nb, an, bb, bo, bn)
	return normStr(SymStr{nb, 0, an + bn})
}

// strEq builds the equality of two strings as bool or term.
func (it *Interp) strEq(a, b Value) Value {
	as, aok := a.(string)
	bs, bok := b.(string)
	if aok && bok {
		return as == bs
	}
	if strLen(a) != strLen(b) {
		return false
	}
	n := strLen(a)
	r := it.ts.True
	for i := 0; i < n; i++ {
		x := it.toTerm8(it.strByte(a, i))
		y := it.toTerm8(it.strByte(b, i))
		r = it.ts.And(r, it.ts.Eq(x, y))
		if r.IsFalse() {
			return false
		}
	}
	return it.boolVal(r)
}

// strLess builds a < b lexicographically.
func (it *Interp) strLess(a, b Value) Value {
	as, aok := a.(string)
	bs, bok := b.(string)
	if aok && bok {
		return as < bs
	}
	na, nb := strLen(a), strLen(b)
	n := na
	if nb < n {
		n = nb
	}
	// result for the common prefix being equal: shorter is less
	r := it.ts.Bool(na < nb)
	for i := n - 1; i >= 0; i-- {
		x := it.toTerm8(it.strByte(a, i))
		y := it.toTerm8(it.strByte(b, i))
		r = it.ts.Ite(it.ts.Eq(x, y), r, it.ts.Ult(x, y))
	}
	return it.boolVal(r)
}

func (it *Interp) toTerm8(v Value) *term.Term {
	switch x := v.(type) {
	case *term.Term:
		return x
	case uint64:
		return it.ts.BV(x, 8)
	}
	panic("toTerm8")
}

func (it *Interp) boolVal(t *term.Term) Value {
	if t.IsConst() {
		return t.C != 0
	}
	return t
}

// ---------- map ----------

func newMap() *MapObj { return &MapObj{idx: map[interface{}]int{}} }

// hashKey returns a comparable Go value identifying a fully concrete key, or ok=false.
func hashKey(v Value) (interface{}, bool) {
	switch x := v.(type) {
	case bool, uint64, float64, float32, string, *Value, BytePtr, *MapObj, *ChanObj, complex128:
		return x, true
	case nil:
		return nil, true
	case Iface:
		if x.t == nil {
			return Iface{}, true
		}
		k, ok := hashKey(x.v)
		if !ok {
			return nil, false
		}
		return [2]interface{}{typeKey(x.t), k}, true
	case Struct:
		var sb strings.Builder
		sb.WriteString("S{")
		for _, e := range x {
			k, ok := hashKey(e)
			if !ok {
				return nil, false
			}
			fmt.Fprintf(&sb, "%T:%v|", k, k)
		}
		sb.WriteString("}")
		return sb.String(), true
	case Array:
		var sb strings.Builder
		sb.WriteString("A{")
		for _, e := range x {
			k, ok := hashKey(e)
			if !ok {
				return nil, false
			}
			fmt.Fprintf(&sb, "%T:%v|", k, k)
		}
		sb.WriteString("}")
		return sb.String(), true
	case NumArray:
		if len(x.buf.sym) != 0 {
			return nil, false
		}
		return "N{" + string(x.buf.b) + "}", true
	}
	return nil, false
}

var typeKeys = map[string]types.Type{}

func typeKey(t types.Type) interface{} {
	if n, ok := t.(*types.Named); ok && n.TypeArgs().Len() == 0 {
		return n.Obj()
	}
	return t.String()
}

func (m *MapObj) lookupConc(k interface{}) (int, bool) {
	i, ok := m.idx[k]
	return i, ok
}

func (m *MapObj) insert(key Value, hk interface{}, hashed bool, val Value) {
	m.keys = append(m.keys, key)
	m.vals = append(m.vals, val)
	m.live = append(m.live, true)
	if hashed {
		m.idx[hk] = len(m.keys) - 1
	} else {
		m.hasSymK = true
	}
	m.n++
}

func (m *MapObj) remove(i int) {
	if !m.live[i] {
		return
	}
	m.live[i] = false
	if hk, ok := hashKey(m.keys[i]); ok {
		delete(m.idx, hk)
	}
	m.n--
}

// sortedLive returns indices of live entries in insertion order.
func (m *MapObj) liveIdx() []int {
	var r []int
	for i, l := range m.live {
		if l {
			r = append(r, i)
		}
	}
	return r
}

var _ = sort.Ints

// ---------- errors raised by the executor ----------

type unsupportedErr struct {
	msg string
	loc string
}

func unsupported(msg string) unsupportedErr { return unsupportedErr{msg: msg} }

// goPanic is a Go-level panic in the interpreted program.
type goPanic struct {
	v     Value
	stack string
}

// pathEnd terminates the current path (pruned by Assume, or assertion failure recorded).
type pathEnd struct{ why string }

type boundHit struct{ why string }
