package interp

import (
	"fmt"
	"runtime"
	"go/types"
	"io"
	"os"
	"sort"
	"strings"
	"sync"
	"time"

	"golang.org/x/tools/go/ssa"

	"gosmt/smt"
	"gosmt/term"
)

// dec is one recorded event along a path.
type dec struct {
	Kind   uint8 // 0 branch, 1 value (concretisation)
	B      bool
	Forced bool
	V      uint64
}

type InputRec struct {
	Name  string `json:"name"`
	Kind  string `json:"kind"` // bool, u8,u16,u32,u64,i64 ... by width
	Width uint8  `json:"width"`
	Value uint64 `json:"value"`
}

type Failure struct {
	Kind    string     `json:"kind"` // assert | panic
	Msg     string     `json:"msg"`
	Inputs  []InputRec `json:"inputs"`
	Stack   string     `json:"stack,omitempty"`
	PathLen int        `json:"path_len"`
	Observe []string   `json:"observe,omitempty"`
}

type PathSample struct {
	Decisions int        `json:"decisions"`
	PCSize    int        `json:"pc_size"`
	Inputs    []InputRec `json:"inputs"`
	Outcome   string     `json:"outcome"`
}

type Result struct {
	mu           sync.Mutex
	Entry        string           `json:"entry"`
	Paths        int              `json:"paths"`
	Pruned       int              `json:"pruned"`
	Decisions    int              `json:"decisions"`
	Failures     []Failure        `json:"failures"`
	Unknowns     []string         `json:"unknowns"`
	BoundHits    []string         `json:"bound_hits"`
	BoundInputs  [][]InputRec     `json:"bound_inputs,omitempty"` // inputs leading to the first few budget hits (possible non-termination of the code under test)
	Unsupported  []string         `json:"unsupported"`
	Witnesses    map[string]int   `json:"witnesses"`
	Funcs        map[string]int   `json:"functions"`
	Samples      []PathSample     `json:"samples"`
	Queries      map[string]int   `json:"queries"`
	SolverTimeS  float64          `json:"solver_time_s"`
	WallS        float64          `json:"wall_s"`
	Steps        int64            `json:"steps"`
	InitIssues   []string         `json:"init_issues,omitempty"`
	AssertsOK    int              `json:"asserts_discharged"`
	Stubs        []string         `json:"stubs"`
	Observations map[string][]string `json:"observations,omitempty"`
	Incomplete   string           `json:"incomplete,omitempty"`
	DistinctPC   int              `json:"distinct_paths_with_assert"`
}

type Config struct {
	Workers     int
	TimeoutMs   int
	MaxSteps    int64
	MaxDepth    int
	MaxAlloc    int
	MaxPaths    int
	MaxFailures int
	Deadline    time.Time
	Solver      string
	AltSolver   string // used for queries with hard arithmetic, "" = none
	NoSlice      bool  // do not restrict hard queries to the connected part of the path condition
	KeepGlobals  bool  // keep package-level state across paths (faster, unsound if a path mutates globals)
	NoAltSession bool  // do not keep an incremental session of the alternate solver
	AltMs        int   // per-query timeout of that session (default 1000)
	Verbose     bool
	SolverLog   string
	Concrete    []InputRec // when set: run one concrete path serving these inputs
	ConcreteChoices []int
	MapOrderNondet bool
	OneShotMs      int      // timeout of the non-incremental portfolio used when the incremental solver answers unknown
	OneShotSolvers []string
	DumpDir        string
	Tier           int
	Progress       int
	NoWitness      bool
	MaxDecisions   int // symbolic decisions allowed on one path (default 100000)
	LazyFP         bool // branches on floating-point conditions fork without a feasibility query; the path is checked once at its end
}

type Interp struct {
	oneShots    int
	oneShotTime time.Duration
	oneShotWins map[string]int
	altWins     int
	slicedQueries int
	symMemo     map[*term.Term]symSet
	prog *ssa.Program
	ts   *term.Store
	sol  *smt.Solver
	alt  *smt.Solver
	cfg  *Config
	sh   *shared

	globals    map[*ssa.Global]*Value
	snap      *snapshotT           // shared image of package-level state this path started from
	touched   map[*ssa.Global]bool // globals this worker keeps a private copy of
	building  bool
	initOrder []*ssa.Package
	inited     map[*ssa.Package]bool
	skipInit   map[string]bool
	consts     map[*ssa.Const]Value
	fnNames    map[*ssa.Function]string
	methCache  map[methKey]*ssa.Function
	implCache  map[implKey]bool
	stubs      map[string]*ssa.Function
	inStub     map[string]bool
	funcsSeen  map[*ssa.Function]int
	initIssues []string

	// per-path state
	pc          []*term.Term
	pcSet       map[*term.Term]bool
	trace       []dec
	prefix      []dec
	inputs      []InputRec
	inputTerms  []*term.Term
	nInputs     int
	steps       int64
	depth       int
	stack       []*frame
	deferFrames []*frame
	initMode    bool
	initDepth   int
	pendingIdx  *term.Term
	observe     []string
	sawUnknown  bool
	reached     map[string]bool
	assertsOK   int
	concIdx     int
	choiceIdx   int

	MaxSteps       int64
	MaxDepth       int
	MaxAlloc       int
	MaxIteLen      int
	MapOrderNondet bool
	Verbose        bool
	LogW           io.Writer
	rtErrType      types.Type
	errorType      types.Type
	sched          *scheduler
	syncMaps       map[*Value]*MapObj
	model          map[string]uint64 // a model of the current path condition, or nil
	modelCache     map[*term.Term]uint64
	modelBad       map[*term.Term]bool
	witnessHits    int
	fpMemo         map[*term.Term]bool
	observeTerms   []obsTerm
}

type workItem struct {
	prefix []dec
	model  map[string]uint64
}

type shared struct {
	mu      sync.Mutex
	work    []workItem
	active  int
	cond    *sync.Cond
	res     *Result
	stop    bool
	pcSeen  map[string]bool
	snap      *snapshotT
	snapshots int
	snapCells int
}

func newInterp(prog *ssa.Program, cfg *Config, sh *shared, stubs map[string]*ssa.Function, skipInit map[string]bool) (*Interp, error) {
	it := &Interp{
		prog: prog, ts: term.NewStore(), cfg: cfg, sh: sh,
		globals: map[*ssa.Global]*Value{}, inited: map[*ssa.Package]bool{}, consts: map[*ssa.Const]Value{},
		fnNames: map[*ssa.Function]string{}, methCache: map[methKey]*ssa.Function{}, implCache: map[implKey]bool{},
		stubs: stubs, inStub: map[string]bool{}, funcsSeen: map[*ssa.Function]int{}, skipInit: skipInit,
		MaxSteps: cfg.MaxSteps, MaxDepth: cfg.MaxDepth, MaxAlloc: cfg.MaxAlloc, MaxIteLen: 1024,
		MapOrderNondet: cfg.MapOrderNondet, Verbose: cfg.Verbose, LogW: os.Stderr, oneShotWins: map[string]int{}, touched: map[*ssa.Global]bool{},
	}
	if cfg.Concrete == nil {
		s, err := smt.New(cfg.Solver, cfg.TimeoutMs)
		if err != nil {
			return nil, err
		}
		it.sol = s
		if cfg.SolverLog != "" {
			f, err := os.Create(cfg.SolverLog)
			if err == nil {
				s.Log = f
			}
		}
	}
	if rt := prog.ImportedPackage("runtime"); rt != nil {
		if tn := rt.Type("errorString"); tn != nil {
			it.rtErrType = tn.Type()
		}
	}
	it.errorType = types.Universe.Lookup("error").Type()
	return it, nil
}

func (it *Interp) close() {
	if it.sol != nil {
		it.sol.Close()
	}
	if it.alt != nil {
		it.alt.Close()
	}
}

// check decides sat(pc ∧ q) with the portfolio.
func (it *Interp) check(q *term.Term, vars map[string]uint8) (smt.Result, map[string]uint64) {
	if it.cfg.AltSolver != "" && it.hardArith(q) {
		// division/multiplication by non-trivial operands: incremental back ends stall on these;
		// go straight to fresh processes, integer-encoding solver first in the portfolio
		// only the part of the path condition that shares symbols with q matters
		pcs, qvars := it.pc, vars
		sliced := false
		if q != nil && !it.cfg.NoSlice {
			sl, reach := it.slice(q)
			if len(sl) < len(it.pc) {
				pcs, sliced = sl, true
				it.slicedQueries++
				if vars != nil {
					qvars = map[string]uint8{}
					for n, w := range vars {
						if _, ok := reach[n]; ok {
							qvars[n] = w
						}
					}
				}
			}
		}
		// first an incremental session of the alternate back end that mirrors the path condition
		if !sliced && it.cfg.AltSolver == "cvc5-int" && !it.cfg.NoAltSession {
			if it.alt == nil {
				ms := it.cfg.AltMs
				if ms <= 0 {
					ms = 1000
				}
				if a, err := smt.New(it.cfg.AltSolver, ms); err == nil {
					it.alt = a
				}
			}
			if it.alt != nil {
				r, m := it.alt.Check(it.pc, q, vars)
				if r != smt.Unknown {
					it.altWins++
					return r, m
				}
			}
		}
		kinds := []string{it.cfg.AltSolver}
		for _, k := range it.cfg.OneShotSolvers {
			if k != it.cfg.AltSolver {
				kinds = append(kinds, k)
			}
		}
		t0 := time.Now()
		it.oneShots++
		dump := ""
		if it.cfg.DumpDir != "" {
			dump = fmt.Sprintf("%s/q%d.smt2", it.cfg.DumpDir, it.oneShots)
		}
		ms := it.cfg.OneShotMs
		if ms <= 0 {
			ms = 60000
		}
		r, m, kind := smt.OneShot(kinds, ms, pcs, q, qvars, dump)
		it.oneShotTime += time.Since(t0)
		if r != smt.Unknown {
			it.oneShotWins[kind]++
		}
		if sliced && r == smt.Sat && vars != nil {
			// complete the model with the current model of the untouched part of the path condition
			if it.model != nil && len(it.trace) >= len(it.prefix) {
				for n := range vars {
					if _, ok := qvars[n]; !ok {
						m[n] = it.model[n]
					}
				}
			} else {
				t1 := time.Now()
				r2, m2, _ := smt.OneShot(kinds, ms, it.pc, q, vars, "")
				it.oneShotTime += time.Since(t1)
				it.oneShots++
				if r2 == smt.Sat {
					m = m2
				} else {
					m = nil
				}
			}
		}
		return r, m
	}
	r, m := it.sol.Check(it.pc, q, vars)
	if r == smt.Unknown && it.cfg.OneShotMs > 0 {
		t0 := time.Now()
		it.oneShots++
		dump := ""
		if it.cfg.DumpDir != "" {
			dump = fmt.Sprintf("%s/q%d.smt2", it.cfg.DumpDir, it.oneShots)
		}
		r3, m3, kind := smt.OneShot(it.cfg.OneShotSolvers, it.cfg.OneShotMs, it.pc, q, vars, dump)
		it.oneShotTime += time.Since(t0)
		if r3 != smt.Unknown {
			it.oneShotWins[kind]++
			return r3, m3
		}
	}
	return r, m
}

func (it *Interp) hardArith(q *term.Term) bool {
	seen := map[*term.Term]bool{}
	var walk func(t *term.Term) bool
	walk = func(t *term.Term) bool {
		if seen[t] {
			return false
		}
		seen[t] = true
		switch t.Op {
		case term.OpBvUDiv, term.OpBvURem, term.OpBvSDiv, term.OpBvSRem:
			if t.W >= 32 {
				return true
			}
		case term.OpBvMul:
			// multiplication by a constant is a few adders for a SAT solver; two symbolic factors are not
			if t.W >= 32 && !t.A[0].IsConst() && !t.A[1].IsConst() {
				return true
			}
		}
		for _, a := range t.A {
			if walk(a) {
				return true
			}
		}
		return false
	}
	if q != nil && walk(q) {
		return true
	}
	for _, p := range it.pc {
		if walk(p) {
			return true
		}
	}
	return false
}

func (it *Interp) pushPC(c *term.Term) {
	it.pc = append(it.pc, c)
	it.pcSet[c] = true
}

// branch decides a symbolic condition; returns the side taken on this path.
func (it *Interp) branch(c *term.Term) bool {
	if c.IsConst() {
		return c.C != 0
	}
	if it.cfg.Concrete != nil {
		return it.evalConcrete(c) != 0
	}
	if it.initMode {
		panic(unsupported("symbolic branch during package initialisation"))
	}
	if it.pcSet[c] {
		return true
	}
	nc := it.ts.Not(c)
	if it.pcSet[nc] {
		return false
	}
	pos := len(it.trace)
	if pos < len(it.prefix) {
		d := it.prefix[pos]
		if d.Kind != 0 {
			panic(fmt.Sprintf("replay divergence: expected value record at %d", pos))
		}
		it.trace = append(it.trace, d)
		if !d.Forced {
			if d.B {
				it.pushPC(c)
			} else {
				it.pushPC(nc)
			}
		}
		return d.B
	}
	if len(it.trace) > it.cfg.maxDecisions() {
		panic(boundHit{"decision budget at " + it.where()})
	}
	if it.cfg.LazyFP && term.HasFloat(c, it.floatMemo()) {
		// fork without asking the solver; a path whose model is nil is checked for feasibility at its end
		if v, ok := it.evalModel(c); ok && !v {
			it.pushAlt(it.model)
			it.setModel(nil)
		} else if ok {
			it.pushAlt(nil)
		} else {
			it.pushAlt(nil)
			it.setModel(nil)
		}
		it.trace = append(it.trace, dec{B: true})
		it.pushPC(c)
		return true
	}
	vars := it.inputVars()
	if v, ok := it.evalModel(c); ok {
		it.witnessHits++
		if v {
			// the current model witnesses the true side; only the false side needs the solver
			r2, m2 := it.check(nc, vars)
			if r2 == smt.Unsat {
				it.trace = append(it.trace, dec{B: true, Forced: true})
				return true
			}
			if r2 == smt.Unknown {
				it.noteUnknown("branch feasibility (false side)")
				m2 = nil
			}
			it.pushAlt(m2)
			it.trace = append(it.trace, dec{B: true})
			it.pushPC(c)
			return true
		}
		r1, m1 := it.check(c, vars)
		if r1 == smt.Unsat {
			it.trace = append(it.trace, dec{B: false, Forced: true})
			return false
		}
		if r1 == smt.Unknown {
			it.noteUnknown("branch feasibility (true side)")
			m1 = nil
		}
		it.pushAlt(it.model)
		it.trace = append(it.trace, dec{B: true})
		it.pushPC(c)
		it.setModel(m1)
		return true
	}
	r1, m1 := it.check(c, vars)
	if r1 == smt.Unsat {
		it.trace = append(it.trace, dec{B: false, Forced: true})
		return false
	}
	if r1 == smt.Unknown {
		it.noteUnknown("branch feasibility (true side)")
		m1 = nil
	}
	r2, m2 := it.check(nc, vars)
	if r2 == smt.Unsat {
		it.trace = append(it.trace, dec{B: true, Forced: true})
		if m1 != nil {
			it.setModel(m1)
		}
		return true
	}
	if r2 == smt.Unknown {
		it.noteUnknown("branch feasibility (false side)")
		m2 = nil
	}
	// both feasible
	it.pushAlt(m2)
	it.trace = append(it.trace, dec{B: true})
	it.pushPC(c)
	it.setModel(m1)
	return true
}

// pushAlt enqueues the path that takes the false side of the decision being made.
func (it *Interp) pushAlt(model map[string]uint64) {
	alt := make([]dec, len(it.trace)+1)
	copy(alt, it.trace)
	alt[len(it.trace)] = dec{B: false}
	it.sh.push(alt, model)
}

func (it *Interp) floatMemo() map[*term.Term]bool {
	if it.fpMemo == nil {
		it.fpMemo = map[*term.Term]bool{}
	}
	return it.fpMemo
}

func (it *Interp) setModel(m map[string]uint64) {
	it.model = m
	it.modelCache = map[*term.Term]uint64{}
	it.modelBad = map[*term.Term]bool{}
}

// evalModel evaluates a Boolean term under the cached model of the path condition.
func (it *Interp) evalModel(c *term.Term) (bool, bool) {
	if it.model == nil || it.cfg.NoWitness {
		return false, false
	}
	if len(it.trace) < len(it.prefix) {
		return false, false // the model belongs to the end of the prefix
	}
	v, ok := it.ts.EvalOK(c, it.model, it.modelCache, it.modelBad)
	return v != 0, ok
}

func (c *Config) maxDecisions() int {
	if c.MaxDecisions > 0 {
		return c.MaxDecisions
	}
	return 100000
}

func (it *Interp) noteUnknown(what string) {
	it.sawUnknown = true
	it.sh.res.mu.Lock()
	if len(it.sh.res.Unknowns) < 50 {
		it.sh.res.Unknowns = append(it.sh.res.Unknowns, what+" at "+it.where())
	}
	it.sh.res.mu.Unlock()
}

func (it *Interp) where() string {
	for i := len(it.stack) - 1; i >= 0; i-- {
		fr := it.stack[i]
		if fr.curInstr != nil {
			p := it.prog.Fset.Position(fr.curInstr.Pos())
			if p.IsValid() {
				return fmt.Sprintf("%s (%s:%d)", fr.fn, p.Filename, p.Line)
			}
		}
	}
	if len(it.stack) > 0 {
		return it.stack[len(it.stack)-1].fn.String()
	}
	return "?"
}

// concretize forks over the feasible values of t and returns the one taken on this path.
func (it *Interp) concretize(t *term.Term, what string) uint64 {
	if t.IsConst() {
		return t.C
	}
	if it.cfg.Concrete != nil {
		return it.evalConcrete(t)
	}
	if it.initMode {
		panic(unsupported("symbolic value during package initialisation"))
	}
	for n := 0; ; n++ {
		if n > 4096 {
			panic(boundHit{"concretisation of " + what + ": more than 4096 values at " + it.where()})
		}
		var v uint64
		pos := len(it.trace)
		if pos < len(it.prefix) {
			d := it.prefix[pos]
			if d.Kind != 1 {
				panic(fmt.Sprintf("replay divergence: expected branch record at %d", pos))
			}
			v = d.V
			it.trace = append(it.trace, d)
		} else {
			if it.model != nil && len(it.trace) >= len(it.prefix) && !it.cfg.NoWitness {
				if mv, ok := it.ts.EvalOK(t, it.model, it.modelCache, it.modelBad); ok {
					v = mv
					it.trace = append(it.trace, dec{Kind: 1, V: v})
					if it.branch(it.ts.Eq(t, it.ts.BV(v, t.W))) {
						return v
					}
					continue
				}
			}
			// ask for a model value of t
			probe := it.ts.Var(fmt.Sprintf("probe!%d", t.W), t.W)
			r, m := it.check(it.ts.Eq(probe, t), map[string]uint8{probe.Name: t.W})
			if r != smt.Sat {
				if r == smt.Unknown {
					it.noteUnknown("concretisation of " + what)
				}
				panic(pathEnd{"concretisation infeasible"})
			}
			v = m[probe.Name]
			it.trace = append(it.trace, dec{Kind: 1, V: v})
		}
		if it.branch(it.ts.Eq(t, it.ts.BV(v, t.W))) {
			return v
		}
	}
}

// choose returns a value in [0,n) with one path per feasible value.
func (it *Interp) choose(name string, n int) int {
	if it.cfg.Concrete != nil {
		v := it.nextInput(name, 64)
		x := int(v.(uint64))
		if x < 0 || x >= n {
			panic(pathEnd{"choose out of range in concrete run"})
		}
		return x
	}
	v := it.nextInput(name, 64).(*term.Term)
	it.assume(it.ts.Ult(v, it.ts.BV(uint64(n), 64)))
	for i := 0; i < n-1; i++ {
		if it.branch(it.ts.Eq(v, it.ts.BV(uint64(i), 64))) {
			return i
		}
	}
	return n - 1
}

// nextInput creates the next nondeterministic input of the given width (0 = bool).
func (it *Interp) nextInput(name string, w uint8) Value {
	idx := it.nInputs
	it.nInputs++
	full := fmt.Sprintf("%s#%d", name, idx)
	if it.cfg.Concrete != nil {
		var v uint64
		if idx < len(it.cfg.Concrete) {
			v = it.cfg.Concrete[idx].Value
		}
		it.inputs = append(it.inputs, InputRec{Name: full, Width: w, Value: v})
		if w == 0 {
			return v != 0
		}
		return v & mask(w)
	}
	t := it.ts.Var(full, w)
	it.inputs = append(it.inputs, InputRec{Name: full, Width: w})
	it.inputTerms = append(it.inputTerms, t)
	return t
}

func (it *Interp) evalConcrete(t *term.Term) uint64 {
	return it.ts.Eval(t, map[string]uint64{}, map[*term.Term]uint64{})
}

func (it *Interp) assume(c *term.Term) {
	if c.IsTrue() {
		return
	}
	if c.IsFalse() {
		panic(pathEnd{"assume false"})
	}
	if it.cfg.Concrete != nil {
		if it.evalConcrete(c) == 0 {
			panic(pathEnd{"assume false"})
		}
		return
	}
	// an assumption is a branch whose false side is discarded
	if !it.branchNoAlt(c) {
		panic(pathEnd{"assume false"})
	}
}

// branchNoAlt is like branch but never enqueues the false side; returns false if c is infeasible.
func (it *Interp) branchNoAlt(c *term.Term) bool {
	if it.pcSet[c] {
		return true
	}
	pos := len(it.trace)
	if pos < len(it.prefix) {
		d := it.prefix[pos]
		it.trace = append(it.trace, d)
		if d.B && !d.Forced {
			it.pushPC(c)
		}
		return d.B
	}
	if v, ok := it.evalModel(c); ok && v {
		it.witnessHits++
		it.trace = append(it.trace, dec{B: true})
		it.pushPC(c)
		return true
	}
	r1, m1 := it.check(c, it.inputVars())
	if r1 == smt.Unsat {
		it.trace = append(it.trace, dec{B: false, Forced: true})
		return false
	}
	if r1 == smt.Unknown {
		it.noteUnknown("assume feasibility")
		m1 = nil
	}
	it.trace = append(it.trace, dec{B: true})
	it.pushPC(c)
	it.setModel(m1)
	return true
}

func (it *Interp) inputVars() map[string]uint8 {
	m := map[string]uint8{}
	for _, in := range it.inputs {
		m[in.Name] = in.Width
	}
	return m
}

func (it *Interp) modelInputs(m map[string]uint64) []InputRec {
	out := make([]InputRec, len(it.inputs))
	copy(out, it.inputs)
	for i := range out {
		out[i].Value = m[out[i].Name]
	}
	return out
}

func (it *Interp) assert(c *term.Term, msg string) {
	if c.IsTrue() {
		it.assertsOK++
		return
	}
	if it.cfg.Concrete != nil {
		if it.evalConcrete(c) == 0 {
			it.fail(Failure{Kind: "assert", Msg: msg, Inputs: it.inputs})
			panic(pathEnd{"assertion failed"})
		}
		return
	}
	pos := len(it.trace)
	if pos < len(it.prefix) {
		// already discharged on an earlier run along this prefix
		d := it.prefix[pos]
		it.trace = append(it.trace, d)
		if !d.B {
			panic(pathEnd{"assertion failed (replayed)"})
		}
		if !d.Forced {
			it.pushPC(c)
		}
		return
	}
	var r smt.Result
	var m map[string]uint64
	if v, ok := it.evalModel(c); ok && !v {
		// the cached model of the path condition already violates the assertion
		r, m = smt.Sat, it.model
	} else {
		r, m = it.check(it.ts.Not(c), it.inputVars())
	}
	switch r {
	case smt.Unsat:
		it.assertsOK++
		it.trace = append(it.trace, dec{B: true, Forced: true})
		return
	case smt.Unknown:
		it.noteUnknown("assertion \"" + msg + "\"")
		it.trace = append(it.trace, dec{B: true})
		it.pushPC(c)
		return
	}
	if !it.modelSatisfies(m, it.ts.Not(c)) {
		// the back end returned a model that our own evaluator rejects: never report it
		it.noteUnknown("assertion \"" + msg + "\" (solver model rejected by the evaluator)")
		it.trace = append(it.trace, dec{B: true})
		it.pushPC(c)
		return
	}
	it.fail(Failure{Kind: "assert", Msg: msg, Inputs: it.modelInputs(m), Stack: it.stackString(), PathLen: len(it.trace)})
	// continue along the side on which the assertion holds, if feasible
	it.trace = append(it.trace, dec{B: true})
	r2, _ := it.check(c, nil)
	if r2 == smt.Unsat {
		panic(pathEnd{"assertion fails on whole path"})
	}
	it.pushPC(c)
}

func (it *Interp) fail(f Failure) {
	f.Observe = append([]string(nil), it.observe...)
	if len(it.observeTerms) > 0 {
		env := map[string]uint64{}
		for _, in := range f.Inputs {
			env[in.Name] = in.Value
		}
		cache := map[*term.Term]uint64{}
		for _, o := range it.observeTerms {
			f.Observe[o.pos] = fmt.Sprintf("%s=%d (symbolic, under the model)", o.label, int64(it.ts.Eval(o.t, env, cache)))
		}
	}
	if it.cfg.Progress > 0 {
		var sb strings.Builder
		for _, in := range f.Inputs {
			fmt.Fprintf(&sb, " %s=%d", in.Name, in.Value)
		}
		fmt.Fprintf(os.Stderr, "  FAILURE %s: %s |%s | observed: %v\n", f.Kind, f.Msg, sb.String(), f.Observe)
	}
	res := it.sh.res
	res.mu.Lock()
	defer res.mu.Unlock()
	// de-duplicate by kind+msg, keep the first few models of each
	n := 0
	for _, g := range res.Failures {
		if g.Kind == f.Kind && g.Msg == f.Msg {
			n++
		}
	}
	if n < 3 {
		res.Failures = append(res.Failures, f)
	}
	if it.cfg.MaxFailures > 0 && len(res.Failures) >= it.cfg.MaxFailures {
		it.sh.mu.Lock()
		it.sh.stop = true
		it.sh.mu.Unlock()
		it.sh.cond.Broadcast()
	}
}

func (sh *shared) push(p []dec, model map[string]uint64) {
	sh.mu.Lock()
	sh.work = append(sh.work, workItem{p, model})
	sh.mu.Unlock()
	sh.cond.Signal()
}

func (sh *shared) pop() (workItem, bool) {
	sh.mu.Lock()
	defer sh.mu.Unlock()
	for {
		if sh.stop {
			return workItem{}, false
		}
		if n := len(sh.work); n > 0 {
			p := sh.work[n-1]
			sh.work = sh.work[:n-1]
			sh.active++
			return p, true
		}
		if sh.active == 0 {
			sh.cond.Broadcast()
			return workItem{}, false
		}
		sh.cond.Wait()
	}
}

func (sh *shared) done() {
	sh.mu.Lock()
	sh.active--
	if sh.active == 0 && len(sh.work) == 0 {
		sh.cond.Broadcast()
	}
	sh.mu.Unlock()
}

// runPath executes the entry function once along prefix.
func (it *Interp) runPath(entry *ssa.Function, prefix []dec, model map[string]uint64) {
	outcome := "ok"
	for attempt := 0; ; attempt++ {
	outcome = "ok"
	it.setModel(model)
	it.beginPathGlobals()
	it.pc = it.pc[:0]
	it.pcSet = map[*term.Term]bool{}
	it.trace = it.trace[:0]
	it.prefix = prefix
	it.inputs = nil
	it.inputTerms = nil
	it.nInputs = 0
	it.steps = 0
	it.depth = 0
	it.stack = it.stack[:0]
	it.observe = nil
	it.observeTerms = nil
	it.sawUnknown = false
	it.reached = map[string]bool{}
	it.assertsOK = 0
	it.sched = nil
	it.syncMaps = nil
	func() {
		defer func() {
			r := recover()
			if r == nil {
				return
			}
			switch e := r.(type) {
			case pathEnd:
				outcome = "pruned: " + e.why
			case boundHit:
				outcome = "bound: " + e.why
				// inputs that lead here, when the solver still answers (a budget hit may be a loop in the code under test)
				ins := ""
				at := it.where()
				var recs []InputRec
				if it.cfg.Concrete == nil {
					it.stack = it.stack[:0]
					if r, m := it.check(nil, it.inputVars()); r == smt.Sat {
						recs = it.modelInputs(m)
						for _, in := range recs {
							ins += fmt.Sprintf(" %s=%d", in.Name, in.Value)
						}
					}
				}
				it.sh.res.mu.Lock()
				if len(it.sh.res.BoundHits) < 20 {
					it.sh.res.BoundHits = append(it.sh.res.BoundHits, e.why+" at "+at+" | inputs:"+ins)
					if recs != nil && len(it.sh.res.BoundInputs) < 3 {
						it.sh.res.BoundInputs = append(it.sh.res.BoundInputs, recs)
					}
				}
				it.sh.res.mu.Unlock()
			case unsupportedErr:
				outcome = "unsupported: " + e.msg
				it.sh.res.mu.Lock()
				if len(it.sh.res.Unsupported) < 20 {
					it.sh.res.Unsupported = append(it.sh.res.Unsupported, e.msg+" at "+e.loc)
				}
				it.sh.res.mu.Unlock()
			case *goPanic:
				outcome = "panic"
				msg := it.safePanicString(e)
				var ins []InputRec
				if it.cfg.Concrete != nil {
					ins = it.inputs
				} else {
					it.stack = it.stack[:0]
					r, m := it.check(nil, it.inputVars())
					if r == smt.Sat {
						ins = it.modelInputs(m)
					} else if r == smt.Unsat && it.cfg.LazyFP {
						outcome = "pruned: infeasible path (lazy floating-point branches)"
						it.assertsOK = 0
						return
					} else {
						ins = it.inputs
					}
				}
				it.fail(Failure{Kind: "panic", Msg: msg, Inputs: ins, Stack: e.stack, PathLen: len(it.trace)})
			case retryPath:
				outcome = "retry"
			case killed:
				panic(r)
			default:
				outcome = "engine-error"
				buf := make([]byte, 6000)
				buf = buf[:runtime.Stack(buf, false)]
				it.sh.res.mu.Lock()
				if len(it.sh.res.Unsupported) < 20 {
					it.sh.res.Unsupported = append(it.sh.res.Unsupported, fmt.Sprintf("ENGINE ERROR: %v at %s\n%s\n%s", r, it.where(), it.stackString(), buf))
				}
				it.sh.res.mu.Unlock()
			}
		}()
		it.callSSA(entry, nil, nil)
		if it.cfg.LazyFP && it.cfg.Concrete == nil && (it.model == nil || len(it.trace) < len(it.prefix)) {
			it.stack = it.stack[:0]
			switch r, m := it.check(nil, it.inputVars()); r {
			case smt.Unsat:
				outcome = "pruned: infeasible path (lazy floating-point branches)"
				it.assertsOK = 0
			case smt.Sat:
				it.setModel(m)
			default:
				it.noteUnknown("feasibility of a completed path (lazy floating-point branches)")
			}
		}
	}()
	if outcome != "retry" {
		break
	}
	// continue from the decisions already taken: their alternatives are in the work queue already
	if os.Getenv("GOSMT_DEBUG_RETRY") != "" {
		fmt.Fprintf(os.Stderr, "retry attempt=%d prefix=%d trace=%d touched=%d\n", attempt, len(prefix), len(it.trace), len(it.touched))
	}
	if len(it.trace) > len(prefix) {
		prefix = append([]dec(nil), it.trace...)
		model = nil
	}
	if attempt > 5000 {
		panic("runPath: too many retries for private copies of globals")
	}
	it.killAll()
	}
	it.killAll()
	it.endPathGlobals()
	res := it.sh.res
	res.mu.Lock()
	defer res.mu.Unlock()
	if strings.HasPrefix(outcome, "pruned") {
		res.Pruned++
	} else {
		res.Paths++
	}
	res.Decisions += len(it.trace)
	res.Steps += it.steps
	res.AssertsOK += it.assertsOK
	if outcome == "ok" || outcome == "panic" {
		for l := range it.reached {
			res.Witnesses[l]++
		}
	}
	if it.assertsOK > 0 || outcome == "panic" {
		res.DistinctPC++
	}
	if len(res.Samples) < 3 && (outcome == "ok") && it.cfg.Concrete == nil && len(it.inputs) > 0 {
		// write out a satisfying input of this path
		var r smt.Result
		var m map[string]uint64
		if it.model != nil && len(it.trace) >= len(it.prefix) {
			r, m = smt.Sat, it.model
		} else {
			r, m = it.check(nil, it.inputVars())
		}
		if r == smt.Sat {
			res.Samples = append(res.Samples, PathSample{Decisions: len(it.trace), PCSize: len(it.pc), Inputs: it.modelInputs(m), Outcome: outcome})
		}
	}
	if it.cfg.Concrete != nil {
		res.Samples = append(res.Samples, PathSample{Inputs: it.inputs, Outcome: outcome})
		if res.Observations == nil {
			res.Observations = map[string][]string{}
		}
		res.Observations["run"] = it.observe
	}
}

func (it *Interp) safePanicString(e *goPanic) (s string) {
	defer func() {
		if r := recover(); r != nil {
			s = "panic (message unavailable)"
		}
	}()
	return it.panicString(e)
}

// Explore runs the harness entry over all paths.
func Explore(prog *ssa.Program, entry *ssa.Function, cfg *Config, stubs map[string]*ssa.Function, skipInit map[string]bool) *Result {
	t0 := time.Now()
	res := &Result{Entry: entry.String(), Witnesses: map[string]int{}, Funcs: map[string]int{}, Queries: map[string]int{}}
	sh := &shared{res: res, pcSeen: map[string]bool{}}
	sh.cond = sync.NewCond(&sh.mu)
	sh.work = append(sh.work, workItem{nil, map[string]uint64{}})
	workers := cfg.Workers
	if cfg.Concrete != nil || workers < 1 {
		workers = 1
	}
	var wg sync.WaitGroup
	var fmu sync.Mutex
	stopProgress := make(chan struct{})
	if cfg.Progress > 0 {
		go func() {
			tk := time.NewTicker(time.Duration(cfg.Progress) * time.Second)
			defer tk.Stop()
			for {
				select {
				case <-stopProgress:
					return
				case <-tk.C:
					res.mu.Lock()
					sh.mu.Lock()
					fmt.Fprintf(os.Stderr, "  [%s %.0fs] paths=%d pruned=%d failures=%d asserts_ok=%d queue=%d active=%d\n", entry.Name(), time.Since(t0).Seconds(), res.Paths, res.Pruned, len(res.Failures), res.AssertsOK, len(sh.work), sh.active)
					sh.mu.Unlock()
					res.mu.Unlock()
				}
			}
		}()
	}
	for w := 0; w < workers; w++ {
		wg.Add(1)
		go func(w int) {
			defer wg.Done()
			it, err := newInterp(prog, cfg, sh, stubs, skipInit)
			if err != nil {
				res.mu.Lock()
				res.Incomplete = "cannot start solver: " + err.Error()
				res.mu.Unlock()
				return
			}
			defer it.close()
			for {
				p, ok := sh.pop()
				if !ok {
					break
				}
				it.runPath(entry, p.prefix, p.model)
				sh.done()
				res.mu.Lock()
				n := res.Paths + res.Pruned
				res.mu.Unlock()
				if cfg.MaxPaths > 0 && n >= cfg.MaxPaths {
					sh.mu.Lock()
					sh.stop = true
					sh.mu.Unlock()
					sh.cond.Broadcast()
					res.mu.Lock()
					res.Incomplete = fmt.Sprintf("path budget %d exhausted", cfg.MaxPaths)
					res.mu.Unlock()
				}
				if !cfg.Deadline.IsZero() && time.Now().After(cfg.Deadline) {
					sh.mu.Lock()
					sh.stop = true
					sh.mu.Unlock()
					sh.cond.Broadcast()
					res.mu.Lock()
					res.Incomplete = "time budget exhausted"
					res.mu.Unlock()
				}
			}
			fmu.Lock()
			for f, n := range it.funcsSeen {
				res.Funcs[f.String()] += n
			}
			if it.sol != nil {
				st := it.sol.Stats
				res.Queries["sat"] += st.Sat
				res.Queries["unsat"] += st.Unsat
				res.Queries["unknown"] += st.Unknown
				res.Queries["errors"] += st.Errors
				res.Queries["restarts"] += st.Restarts
				res.SolverTimeS += st.Time.Seconds()
			}
			res.Queries["oneshot"] += it.oneShots
			res.Queries["sliced"] += it.slicedQueries
			for k, n := range it.oneShotWins {
				res.Queries["oneshot_decided_"+k] += n
			}
			res.SolverTimeS += it.oneShotTime.Seconds()
			if it.alt != nil {
				st := it.alt.Stats
				res.Queries["alt_sat"] += st.Sat
				res.Queries["alt_unsat"] += st.Unsat
				res.Queries["alt_unknown"] += st.Unknown
				res.Queries["errors"] += st.Errors
				res.SolverTimeS += st.Time.Seconds()
			}
			for _, s := range it.initIssues {
				dup := false
				for _, o := range res.InitIssues {
					if o == s {
						dup = true
					}
				}
				if !dup {
					res.InitIssues = append(res.InitIssues, s)
				}
			}
			fmu.Unlock()
		}(w)
	}
	wg.Wait()
	close(stopProgress)
	sh.mu.Lock()
	if len(sh.work) > 0 && res.Incomplete == "" && !(cfg.MaxFailures > 0 && len(res.Failures) >= cfg.MaxFailures) {
		res.Incomplete = fmt.Sprintf("%d path prefixes left unexplored", len(sh.work))
	}
	sh.mu.Unlock()
	for name := range stubs {
		res.Stubs = append(res.Stubs, name)
	}
	sort.Strings(res.Stubs)
	res.WallS = time.Since(t0).Seconds()
	return res
}

// modelSatisfies evaluates the path condition and q under model m with the engine's own term
// evaluator. Terms containing uninterpreted functions cannot be evaluated and are accepted.
func (it *Interp) modelSatisfies(m map[string]uint64, q *term.Term) bool {
	cache := map[*term.Term]uint64{}
	all := append(append([]*term.Term(nil), it.pc...), q)
	for _, t := range all {
		if term.HasOp(t, map[*term.Term]bool{}, term.OpUF) {
			continue
		}
		if it.ts.Eval(t, m, cache) != 1 {
			return false
		}
	}
	return true
}
