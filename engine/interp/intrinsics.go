package interp

import (
	"fmt"
	"go/types"
	"math"
	"math/bits"
	"strings"

	"golang.org/x/tools/go/ssa"

	"gosmt/term"
)

type intrinsic func(it *Interp, fn *ssa.Function, args []Value, site ssa.Instruction) Value

var intrinsics = map[string]intrinsic{}

func reg(f intrinsic, names ...string) {
	for _, n := range names {
		intrinsics[n] = f
	}
}

func nop(it *Interp, fn *ssa.Function, args []Value, site ssa.Instruction) Value {
	return it.zeroResult(fn)
}

func init() {
	// ---- sync ----
	reg(nop, "(*sync.Mutex).Lock", "(*sync.Mutex).Unlock", "(*sync.RWMutex).Lock", "(*sync.RWMutex).Unlock",
		"(*sync.RWMutex).RLock", "(*sync.RWMutex).RUnlock", "(*sync.Pool).Put", "(*sync.Cond).Broadcast", "(*sync.Cond).Signal",
		"runtime.Gosched", "runtime.KeepAlive", "runtime.SetFinalizer", "runtime.GC", "runtime/debug.FreeOSMemory",
		"internal/race.Acquire", "internal/race.Release", "internal/race.ReleaseMerge", "internal/race.Disable", "internal/race.Enable",
		"internal/race.Read", "internal/race.Write", "internal/race.ReadRange", "internal/race.WriteRange",
		"(*sync.Once).doSlow_unused", "runtime.LockOSThread", "runtime.UnlockOSThread", "os.Exit_unused",
		"(*sync.noCopy).Lock", "(*sync.noCopy).Unlock",
		"(*internal/sync.Mutex).Lock", "(*internal/sync.Mutex).Unlock", "(*internal/sync.Mutex).lockSlow", "(*internal/sync.Mutex).unlockSlow")
	reg(func(it *Interp, fn *ssa.Function, args []Value, site ssa.Instruction) Value { return true }, "(*internal/sync.Mutex).TryLock")
	// ---- sync.Map modelled with the executor's own map ----
	reg(func(it *Interp, fn *ssa.Function, args []Value, site ssa.Instruction) Value {
		return it.syncMapOp(fn.Name(), args, site)
	}, "(*sync.Map).Load", "(*sync.Map).Store", "(*sync.Map).LoadOrStore", "(*sync.Map).LoadAndDelete", "(*sync.Map).Delete",
		"(*sync.Map).Range", "(*sync.Map).Swap", "(*sync.Map).CompareAndSwap", "(*sync.Map).CompareAndDelete", "(*sync.Map).Clear")
	// ---- logging ----
	reg(func(it *Interp, fn *ssa.Function, args []Value, site ssa.Instruction) Value {
		rt := fn.Signature.Results().At(0).Type()
		p := new(Value)
		*p = it.zero(rt.Underlying().(*types.Pointer).Elem())
		return p
	}, "github.com/openGemini/openGemini/lib/logger.NewLogger", "github.com/openGemini/openGemini/lib/logger.GetLogger", "go.uber.org/zap.NewNop")
	reg(func(it *Interp, fn *ssa.Function, args []Value, site ssa.Instruction) Value { return true },
		"(*sync.Mutex).TryLock", "(*sync.RWMutex).TryLock", "(*sync.RWMutex).TryRLock")
	reg(func(it *Interp, fn *ssa.Function, args []Value, site ssa.Instruction) Value {
		// Pool.Get: always miss
		p := args[0].(*Value)
		st := (*p).(Struct)
		pt := fn.Signature.Recv().Type().(*types.Pointer).Elem().Underlying().(*types.Struct)
		for i := 0; i < pt.NumFields(); i++ {
			if pt.Field(i).Name() == "New" {
				if st[i] != nil {
					return it.call(st[i], nil, site)
				}
			}
		}
		return Iface{}
	}, "(*sync.Pool).Get")
	reg(func(it *Interp, fn *ssa.Function, args []Value, site ssa.Instruction) Value {
		// Once.Do(f): field "done" then call
		p := args[0].(*Value)
		st := (*p).(Struct)
		pt := fn.Signature.Recv().Type().(*types.Pointer).Elem().Underlying().(*types.Struct)
		for i := 0; i < pt.NumFields(); i++ {
			if pt.Field(i).Name() == "done" {
				if done, ok := st[i].(bool); ok && done {
					return nil
				}
				if ds, ok := st[i].(Struct); ok { // atomic.Uint32 / atomic.Bool
					if isTruthy(ds) {
						return nil
					}
					setTruthy(ds)
					it.call(args[1], nil, site)
					return nil
				}
				if dv, ok := st[i].(uint64); ok {
					if dv != 0 {
						return nil
					}
					st[i] = uint64(1)
					it.call(args[1], nil, site)
					return nil
				}
			}
		}
		panic(unsupported("sync.Once layout"))
	}, "(*sync.Once).Do")
	reg(func(it *Interp, fn *ssa.Function, args []Value, site ssa.Instruction) Value {
		return it.wgOp(fn.Name(), args)
	}, "(*sync.WaitGroup).Add", "(*sync.WaitGroup).Done", "(*sync.WaitGroup).Wait")

	// ---- sync/atomic functions ----
	for _, w := range []string{"Int32", "Int64", "Uint32", "Uint64", "Uintptr", "Pointer"} {
		w := w
		reg(func(it *Interp, fn *ssa.Function, args []Value, site ssa.Instruction) Value {
			et := fn.Signature.Params().At(0).Type().(*types.Pointer).Elem()
			return it.load(args[0], et)
		}, "sync/atomic.Load"+w)
		reg(func(it *Interp, fn *ssa.Function, args []Value, site ssa.Instruction) Value {
			et := fn.Signature.Params().At(0).Type().(*types.Pointer).Elem()
			it.store(args[0], et, args[1])
			return nil
		}, "sync/atomic.Store"+w)
		reg(func(it *Interp, fn *ssa.Function, args []Value, site ssa.Instruction) Value {
			et := fn.Signature.Params().At(0).Type().(*types.Pointer).Elem()
			old := it.load(args[0], et)
			it.store(args[0], et, args[1])
			return old
		}, "sync/atomic.Swap"+w)
		reg(func(it *Interp, fn *ssa.Function, args []Value, site ssa.Instruction) Value {
			et := fn.Signature.Params().At(0).Type().(*types.Pointer).Elem()
			old := it.load(args[0], et)
			eq := it.equals(et, old, args[1])
			var b bool
			switch e := eq.(type) {
			case bool:
				b = e
			case *term.Term:
				b = it.branch(e)
			}
			if b {
				it.store(args[0], et, args[2])
			}
			return b
		}, "sync/atomic.CompareAndSwap"+w)
		if w != "Pointer" {
			reg(func(it *Interp, fn *ssa.Function, args []Value, site ssa.Instruction) Value {
				et := fn.Signature.Params().At(0).Type().(*types.Pointer).Elem()
				old := it.load(args[0], et)
				nv := it.binop(tokenADD, et, et, old, args[1])
				it.store(args[0], et, nv)
				return nv
			}, "sync/atomic.Add"+w)
			reg(func(it *Interp, fn *ssa.Function, args []Value, site ssa.Instruction) Value {
				et := fn.Signature.Params().At(0).Type().(*types.Pointer).Elem()
				old := it.load(args[0], et)
				it.store(args[0], et, it.binop(tokenAND, et, et, old, args[1]))
				return old
			}, "sync/atomic.And"+w)
			reg(func(it *Interp, fn *ssa.Function, args []Value, site ssa.Instruction) Value {
				et := fn.Signature.Params().At(0).Type().(*types.Pointer).Elem()
				old := it.load(args[0], et)
				it.store(args[0], et, it.binop(tokenOR, et, et, old, args[1]))
				return old
			}, "sync/atomic.Or"+w)
		}
	}

	// ---- sync/atomic.Value: struct{ v any }, accessed through unsafe words in the library ----
	avSlot := func(args []Value) Struct {
		p, ok := args[0].(*Value)
		if !ok || p == nil {
			panic(unsupported("atomic.Value receiver"))
		}
		st, ok := (*p).(Struct)
		if !ok || len(st) != 1 {
			panic(unsupported("atomic.Value layout"))
		}
		return st
	}
	avGet := func(st Struct) Value {
		if iv, ok := st[0].(Iface); ok {
			return iv
		}
		return Iface{}
	}
	reg(func(it *Interp, fn *ssa.Function, args []Value, site ssa.Instruction) Value {
		return avGet(avSlot(args))
	}, "(*sync/atomic.Value).Load")
	reg(func(it *Interp, fn *ssa.Function, args []Value, site ssa.Instruction) Value {
		st := avSlot(args)
		iv, ok := args[1].(Iface)
		if !ok || iv.t == nil {
			panic(unsupported("atomic.Value.Store of a nil value"))
		}
		st[0] = iv
		return nil
	}, "(*sync/atomic.Value).Store")
	reg(func(it *Interp, fn *ssa.Function, args []Value, site ssa.Instruction) Value {
		st := avSlot(args)
		iv, ok := args[1].(Iface)
		if !ok || iv.t == nil {
			panic(unsupported("atomic.Value.Swap of a nil value"))
		}
		old := avGet(st)
		st[0] = iv
		return old
	}, "(*sync/atomic.Value).Swap")

	// ---- runtime / os ----
	reg(func(it *Interp, fn *ssa.Function, args []Value, site ssa.Instruction) Value { return uint64(16) }, "runtime.NumCPU", "runtime.GOMAXPROCS")
	reg(func(it *Interp, fn *ssa.Function, args []Value, site ssa.Instruction) Value { return uint64(1) }, "runtime.NumGoroutine")
	reg(func(it *Interp, fn *ssa.Function, args []Value, site ssa.Instruction) Value { return "" }, "os.Getenv")
	reg(func(it *Interp, fn *ssa.Function, args []Value, site ssa.Instruction) Value {
		return Tuple{uint64(0), "", uint64(0), false}
	}, "runtime.Caller")
	reg(func(it *Interp, fn *ssa.Function, args []Value, site ssa.Instruction) Value { return uint64(0) }, "runtime.Callers")
	reg(func(it *Interp, fn *ssa.Function, args []Value, site ssa.Instruction) Value { return NumSlice{esz: 1} }, "runtime/debug.Stack")
	reg(func(it *Interp, fn *ssa.Function, args []Value, site ssa.Instruction) Value { return args[0] }, "internal/abi.NoEscape", "internal/abi.Escape")

	// ---- math ----
	reg(func(it *Interp, fn *ssa.Function, args []Value, site ssa.Instruction) Value {
		switch x := args[0].(type) {
		case float64:
			return math.Float64bits(x)
		case *term.Term:
			return x
		case uint64:
			return x
		}
		panic("Float64bits")
	}, "math.Float64bits")
	reg(func(it *Interp, fn *ssa.Function, args []Value, site ssa.Instruction) Value {
		switch x := args[0].(type) {
		case uint64:
			return math.Float64frombits(x)
		case *term.Term:
			return x
		}
		panic("Float64frombits")
	}, "math.Float64frombits")
	reg(func(it *Interp, fn *ssa.Function, args []Value, site ssa.Instruction) Value {
		switch x := args[0].(type) {
		case float32:
			return uint64(math.Float32bits(x))
		case *term.Term:
			return x
		}
		panic("Float32bits")
	}, "math.Float32bits")
	reg(func(it *Interp, fn *ssa.Function, args []Value, site ssa.Instruction) Value {
		switch x := args[0].(type) {
		case uint64:
			return math.Float32frombits(uint32(x))
		case *term.Term:
			return x
		}
		panic("Float32frombits")
	}, "math.Float32frombits")
	round := func(mode uint64, f func(float64) float64) intrinsic {
		return func(it *Interp, fn *ssa.Function, args []Value, site ssa.Instruction) Value {
			switch x := args[0].(type) {
			case float64:
				return f(x)
			case *term.Term:
				return it.ts.FRound(x, mode)
			}
			panic("round")
		}
	}
	reg(round(0, math.Floor), "math.Floor", "math.archFloor")
	reg(round(1, math.Ceil), "math.Ceil", "math.archCeil")
	reg(round(2, math.Trunc), "math.Trunc", "math.archTrunc")
	reg(round(3, math.RoundToEven), "math.RoundToEven")
	reg(func(it *Interp, fn *ssa.Function, args []Value, site ssa.Instruction) Value {
		switch x := args[0].(type) {
		case float64:
			return math.Sqrt(x)
		case *term.Term:
			return it.ts.FSqrt(x)
		}
		panic("sqrt")
	}, "math.Sqrt", "math.sqrt", "math.archSqrt")
	reg(func(it *Interp, fn *ssa.Function, args []Value, site ssa.Instruction) Value {
		switch x := args[0].(type) {
		case float64:
			return math.Abs(x)
		case *term.Term:
			return it.ts.FAbs(x)
		}
		panic("abs")
	}, "math.Abs")
	conc1 := func(f func(float64) float64) intrinsic {
		return func(it *Interp, fn *ssa.Function, args []Value, site ssa.Instruction) Value {
			x, ok := args[0].(float64)
			if !ok {
				panic(unsupported(fn.String() + " of symbolic float"))
			}
			return f(x)
		}
	}
	reg(conc1(math.Log), "math.Log", "math.archLog")
	reg(conc1(math.Log2), "math.Log2")
	reg(conc1(math.Log10), "math.Log10")
	reg(conc1(math.Exp), "math.Exp", "math.archExp")
	reg(conc1(math.Round), "math.Round")
	reg(func(it *Interp, fn *ssa.Function, args []Value, site ssa.Instruction) Value {
		x, ok1 := args[0].(float64)
		y, ok2 := args[1].(float64)
		if !ok1 || !ok2 {
			panic(unsupported("math.Pow of symbolic float"))
		}
		return math.Pow(x, y)
	}, "math.Pow")
	reg(func(it *Interp, fn *ssa.Function, args []Value, site ssa.Instruction) Value {
		x, ok1 := args[0].(float64)
		y, ok2 := args[1].(float64)
		if !ok1 || !ok2 {
			panic(unsupported("math.Mod of symbolic float"))
		}
		return math.Mod(x, y)
	}, "math.Mod", "math.archMod")

	// ---- math/bits ----
	lenN := func(w uint8) intrinsic {
		return func(it *Interp, fn *ssa.Function, args []Value, site ssa.Instruction) Value {
			switch x := args[0].(type) {
			case uint64:
				return uint64(bits.Len64(x & mask(w)))
			case *term.Term:
				return it.symLen(x)
			}
			panic("bits.Len")
		}
	}
	reg(lenN(64), "math/bits.Len64", "math/bits.Len")
	reg(lenN(32), "math/bits.Len32")
	reg(lenN(16), "math/bits.Len16")
	reg(lenN(8), "math/bits.Len8")
	lzN := func(w uint8) intrinsic {
		return func(it *Interp, fn *ssa.Function, args []Value, site ssa.Instruction) Value {
			switch x := args[0].(type) {
			case uint64:
				return uint64(int(w) - bits.Len64(x&mask(w)))
			case *term.Term:
				l := it.symLen(x).(*term.Term)
				return it.fromTerm(it.ts.Sub(it.ts.BV(uint64(w), 64), l), types.Typ[types.Int])
			}
			panic("bits.LeadingZeros")
		}
	}
	reg(lzN(64), "math/bits.LeadingZeros64", "math/bits.LeadingZeros")
	reg(lzN(32), "math/bits.LeadingZeros32")
	reg(lzN(16), "math/bits.LeadingZeros16")
	reg(lzN(8), "math/bits.LeadingZeros8")
	tzN := func(w uint8) intrinsic {
		return func(it *Interp, fn *ssa.Function, args []Value, site ssa.Instruction) Value {
			switch x := args[0].(type) {
			case uint64:
				if x&mask(w) == 0 {
					return uint64(w)
				}
				return uint64(bits.TrailingZeros64(x))
			case *term.Term:
				r := it.ts.BV(uint64(w), 64)
				for i := int(x.W) - 1; i >= 0; i-- {
					bit := it.ts.Eq(it.ts.Extract(x, uint8(i), uint8(i)), it.ts.BV(1, 1))
					r = it.ts.Ite(bit, it.ts.BV(uint64(i), 64), r)
				}
				return it.fromTerm(r, types.Typ[types.Int])
			}
			panic("bits.TrailingZeros")
		}
	}
	reg(tzN(64), "math/bits.TrailingZeros64", "math/bits.TrailingZeros")
	reg(tzN(32), "math/bits.TrailingZeros32")
	reg(tzN(16), "math/bits.TrailingZeros16")
	reg(tzN(8), "math/bits.TrailingZeros8")
	reg(func(it *Interp, fn *ssa.Function, args []Value, site ssa.Instruction) Value {
		switch x := args[0].(type) {
		case uint64:
			return uint64(bits.OnesCount64(x))
		case *term.Term:
			r := it.ts.BV(0, 64)
			for i := 0; i < int(x.W); i++ {
				r = it.ts.Add(r, it.ts.Zext(it.ts.Extract(x, uint8(i), uint8(i)), 64))
			}
			return it.fromTerm(r, types.Typ[types.Int])
		}
		panic("bits.OnesCount")
	}, "math/bits.OnesCount64", "math/bits.OnesCount", "math/bits.OnesCount32", "math/bits.OnesCount16", "math/bits.OnesCount8")

	// ---- time ----
	reg(func(it *Interp, fn *ssa.Function, args []Value, site ssa.Instruction) Value {
		// default: a fixed instant (2023-11-14T22:13:20Z), no monotonic reading. Harnesses that care stub time.Now.
		t := it.zero(fn.Signature.Results().At(0).Type()).(Struct)
		// wall=0, ext = seconds since year 1
		const unixToInternal int64 = (1969*365 + 1969/4 - 1969/100 + 1969/400) * 86400
		t[0] = uint64(0)
		t[1] = uint64(1700000000 + unixToInternal)
		return t
	}, "time.Now")
	reg(func(it *Interp, fn *ssa.Function, args []Value, site ssa.Instruction) Value { return nil }, "time.Sleep")
	reg(func(it *Interp, fn *ssa.Function, args []Value, site ssa.Instruction) Value { return uint64(1700000000) }, "github.com/VictoriaMetrics/fasttime.UnixTimestamp")

	// ---- errors / fmt ----
	reg(func(it *Interp, fn *ssa.Function, args []Value, site ssa.Instruction) Value {
		return it.sprintf(args[0], args[1])
	}, "fmt.Sprintf")
	reg(func(it *Interp, fn *ssa.Function, args []Value, site ssa.Instruction) Value {
		return it.errorf(fn, args[0], args[1])
	}, "fmt.Errorf")
	reg(func(it *Interp, fn *ssa.Function, args []Value, site ssa.Instruction) Value {
		return it.sprint(args[0], fn.Name() == "Sprintln")
	}, "fmt.Sprint", "fmt.Sprintln")
	reg(func(it *Interp, fn *ssa.Function, args []Value, site ssa.Instruction) Value {
		return Tuple{uint64(0), Iface{}}
	}, "fmt.Printf", "fmt.Println", "fmt.Print")
	// Fprint*: format on the host (concrete operands only) and hand the bytes to the writer's Write method.
	reg(func(it *Interp, fn *ssa.Function, args []Value, site ssa.Instruction) Value {
		w, _ := args[0].(Iface)
		if w.t == nil || strings.HasSuffix(w.t.String(), "os.File") {
			return Tuple{uint64(0), Iface{}}
		}
		var s Value
		switch fn.Name() {
		case "Fprintf":
			s = it.sprintf(args[1], args[2])
		case "Fprintln":
			s = it.sprint(args[1], true)
		default:
			s = it.sprint(args[1], false)
		}
		str, ok := s.(string)
		if !ok || strings.Contains(str, "<sym>") || strings.Contains(str, "<symbolic") {
			panic(unsupported("fmt.Fprint* of a symbolic value into a writer"))
		}
		wf := it.errMethod(w, "Write")
		if wf == nil {
			panic(unsupported("fmt.Fprint*: writer without Write method"))
		}
		b, o, n := strToBuf(str)
		r := it.callFunction(wf, []Value{w.v, NumSlice{buf: b, off: o, len: n, cap: n, esz: 1}}, nil, site)
		if t, ok := r.(Tuple); ok {
			return t
		}
		return Tuple{uint64(n), Iface{}}
	}, "fmt.Fprintf", "fmt.Fprintln", "fmt.Fprint")

	// ---- bytealg ----
	reg(func(it *Interp, fn *ssa.Function, args []Value, site ssa.Instruction) Value {
		b, o, n := bytesOf(args[0])
		return it.indexByte(b, o, n, args[1])
	}, "internal/bytealg.IndexByte", "internal/bytealg.IndexByteString")
	reg(func(it *Interp, fn *ssa.Function, args []Value, site ssa.Instruction) Value {
		b, o, n := bytesOf(args[0])
		return it.lastIndexByte(b, o, n, args[1])
	}, "internal/bytealg.LastIndexByte", "internal/bytealg.LastIndexByteString")
	reg(func(it *Interp, fn *ssa.Function, args []Value, site ssa.Instruction) Value {
		b, o, n := bytesOf(args[0])
		c := 0
		var r *term.Term
		for i := 0; i < n; i++ {
			e := it.equals(types.Typ[types.Uint8], it.bufByte(b, o+i), args[1])
			switch x := e.(type) {
			case bool:
				if x {
					c++
				}
			case *term.Term:
				t := it.ts.BoolToBV(x, 64)
				if r == nil {
					r = t
				} else {
					r = it.ts.Add(r, t)
				}
			}
		}
		if r == nil {
			return uint64(c)
		}
		return it.fromTerm(it.ts.Add(r, it.ts.BV(uint64(c), 64)), types.Typ[types.Int])
	}, "internal/bytealg.Count", "internal/bytealg.CountString")
	reg(func(it *Interp, fn *ssa.Function, args []Value, site ssa.Instruction) Value {
		ab, ao, an := bytesOf(args[0])
		bb, bo, bn := bytesOf(args[1])
		if an != bn {
			return false
		}
		return it.strEq(normStr(SymStr{ab, ao, an}), normStr(SymStr{bb, bo, bn}))
	}, "internal/bytealg.Equal", "bytes.Equal")
	reg(func(it *Interp, fn *ssa.Function, args []Value, site ssa.Instruction) Value {
		ab, ao, an := bytesOf(args[0])
		bb, bo, bn := bytesOf(args[1])
		a, b := normStr(SymStr{ab, ao, an}), normStr(SymStr{bb, bo, bn})
		lt := it.strLess(a, b)
		eq := it.strEq(a, b)
		lb, lok := lt.(bool)
		eb, eok := eq.(bool)
		if lok && eok {
			switch {
			case eb:
				return uint64(0)
			case lb:
				return ^uint64(0)
			}
			return uint64(1)
		}
		r := it.ts.Ite(it.toTerm(eq, types.Typ[types.Bool]), it.ts.BV(0, 64),
			it.ts.Ite(it.toTerm(lt, types.Typ[types.Bool]), it.ts.BV(^uint64(0), 64), it.ts.BV(1, 64)))
		return it.fromTerm(r, types.Typ[types.Int])
	}, "internal/bytealg.Compare", "internal/bytealg.CompareString", "bytes.Compare", "strings.Compare")
	reg(func(it *Interp, fn *ssa.Function, args []Value, site ssa.Instruction) Value {
		ab, ao, an := bytesOf(args[0])
		bb, bo, bn := bytesOf(args[1])
		return it.indexSub(ab, ao, an, bb, bo, bn)
	}, "internal/bytealg.Index", "internal/bytealg.IndexString", "strings.Index", "bytes.Index")
	reg(func(it *Interp, fn *ssa.Function, args []Value, site ssa.Instruction) Value {
		// MakeNoZero(n) []byte
		n := it.asInt(args[0], "MakeNoZero")
		return NumSlice{buf: newBuf(n), len: n, cap: n, esz: 1}
	}, "internal/bytealg.MakeNoZero")

	// ---- sort.Slice family (reflect-based swapper) ----
	reg(func(it *Interp, fn *ssa.Function, args []Value, site ssa.Instruction) Value {
		it.sortSlice(args[0], args[1], fn.Name() != "Slice", site)
		return nil
	}, "sort.Slice", "sort.SliceStable")
	reg(func(it *Interp, fn *ssa.Function, args []Value, site ssa.Instruction) Value {
		n := sliceLen(args[0].(Iface).v)
		for i := n - 1; i > 0; i-- {
			r := it.call(args[1], []Value{uint64(i), uint64(i - 1)}, site)
			b := false
			switch x := r.(type) {
			case bool:
				b = x
			case *term.Term:
				b = it.branch(x)
			}
			if b {
				return false
			}
		}
		return true
	}, "sort.SliceIsSorted")

	// runtime error value methods
	reg(func(it *Interp, fn *ssa.Function, args []Value, site ssa.Instruction) Value {
		return "runtime error: " + args[0].(string)
	}, "(runtime.errorString).Error")
	reg(nop, "(runtime.errorString).RuntimeError")

	reg(func(it *Interp, fn *ssa.Function, args []Value, site ssa.Instruction) Value {
		panic(unsupported("os.Exit called"))
	}, "os.Exit")
}

func isTruthy(s Struct) bool {
	for _, f := range s {
		switch x := f.(type) {
		case uint64:
			if x != 0 {
				return true
			}
		case bool:
			if x {
				return true
			}
		case Struct:
			if isTruthy(x) {
				return true
			}
		}
	}
	return false
}

func setTruthy(s Struct) {
	for i, f := range s {
		switch x := f.(type) {
		case uint64:
			s[i] = uint64(1)
			return
		case bool:
			s[i] = true
			return
		case Struct:
			setTruthy(x)
		}
	}
}

// symLen computes bits.Len of a symbolic term as a 64-bit int term.
func (it *Interp) symLen(x *term.Term) Value {
	r := it.ts.BV(0, 64)
	for i := 0; i < int(x.W); i++ {
		bit := it.ts.Eq(it.ts.Extract(x, uint8(i), uint8(i)), it.ts.BV(1, 1))
		r = it.ts.Ite(bit, it.ts.BV(uint64(i+1), 64), r)
	}
	return it.fromTerm(r, types.Typ[types.Int])
}

func bytesOf(v Value) (*ByteBuf, int, int) {
	switch x := v.(type) {
	case NumSlice:
		if x.buf == nil {
			return newBuf(0), 0, 0
		}
		return x.buf, x.off, x.len
	case string, SymStr:
		return strToBuf(x)
	}
	panic(fmt.Sprintf("bytesOf %T", v))
}

func (it *Interp) bufByte(b *ByteBuf, i int) Value {
	if t, ok := b.sym[i]; ok {
		return t
	}
	return uint64(b.b[i])
}

func (it *Interp) indexByte(b *ByteBuf, o, n int, c Value) Value {
	for i := 0; i < n; i++ {
		e := it.equals(types.Typ[types.Uint8], it.bufByte(b, o+i), c)
		switch x := e.(type) {
		case bool:
			if x {
				return uint64(i)
			}
		case *term.Term:
			if it.branch(x) {
				return uint64(i)
			}
		}
	}
	return ^uint64(0)
}

func (it *Interp) lastIndexByte(b *ByteBuf, o, n int, c Value) Value {
	for i := n - 1; i >= 0; i-- {
		e := it.equals(types.Typ[types.Uint8], it.bufByte(b, o+i), c)
		switch x := e.(type) {
		case bool:
			if x {
				return uint64(i)
			}
		case *term.Term:
			if it.branch(x) {
				return uint64(i)
			}
		}
	}
	return ^uint64(0)
}

func (it *Interp) indexSub(ab *ByteBuf, ao, an int, bb *ByteBuf, bo, bn int) Value {
	if bn == 0 {
		return uint64(0)
	}
	sub := normStr(SymStr{bb, bo, bn})
	for i := 0; i+bn <= an; i++ {
		e := it.strEq(normStr(SymStr{ab, ao + i, bn}), sub)
		switch x := e.(type) {
		case bool:
			if x {
				return uint64(i)
			}
		case *term.Term:
			if it.branch(x) {
				return uint64(i)
			}
		}
	}
	return ^uint64(0)
}

var nopPrefixes = []string{
	"(*github.com/openGemini/openGemini/lib/logger.Logger).",
	"(*go.uber.org/zap.Logger).",
	"(*go.uber.org/zap.SugaredLogger).",
}

// prefixIntrinsic gives no-op models for whole method families (loggers).
func prefixIntrinsic(name string) intrinsic {
	for _, p := range nopPrefixes {
		if strings.HasPrefix(name, p) {
			return nop
		}
	}
	return nil
}

var anyType = types.NewInterfaceType(nil, nil)

func (it *Interp) syncMapOp(name string, args []Value, site ssa.Instruction) Value {
	p := args[0].(*Value)
	if it.syncMaps == nil {
		it.syncMaps = map[*Value]*MapObj{}
	}
	m := it.syncMaps[p]
	if m == nil {
		m = newMap()
		it.syncMaps[p] = m
	}
	switch name {
	case "Load":
		if i := it.mapFind(m, anyType, args[1]); i >= 0 {
			return Tuple{m.vals[i], true}
		}
		return Tuple{Iface{}, false}
	case "Store":
		it.mapUpdate(m, anyType, args[1], args[2])
		return nil
	case "LoadOrStore":
		if i := it.mapFind(m, anyType, args[1]); i >= 0 {
			return Tuple{m.vals[i], true}
		}
		it.mapUpdate(m, anyType, args[1], args[2])
		return Tuple{args[2], false}
	case "LoadAndDelete":
		if i := it.mapFind(m, anyType, args[1]); i >= 0 {
			v := m.vals[i]
			m.remove(i)
			return Tuple{v, true}
		}
		return Tuple{Iface{}, false}
	case "Delete":
		it.mapDelete(m, anyType, args[1])
		return nil
	case "Swap":
		if i := it.mapFind(m, anyType, args[1]); i >= 0 {
			v := m.vals[i]
			m.vals[i] = args[2]
			return Tuple{v, true}
		}
		it.mapUpdate(m, anyType, args[1], args[2])
		return Tuple{Iface{}, false}
	case "Clear":
		for i := range m.live {
			m.remove(i)
		}
		return nil
	case "Range":
		for _, i := range m.liveIdx() {
			if !m.live[i] {
				continue
			}
			r := it.call(args[1], []Value{m.keys[i], m.vals[i]}, site)
			if b, ok := r.(bool); ok && !b {
				break
			}
		}
		return nil
	}
	panic(unsupported("sync.Map." + name))
}

// externalByShape provides models for body-less functions recognised by name patterns.
func (it *Interp) externalByShape(fn *ssa.Function, name string) intrinsic {
	switch {
	case strings.HasPrefix(name, "internal/race."), strings.HasPrefix(name, "internal/msan."), strings.HasPrefix(name, "internal/asan."):
		return nop
	case strings.HasPrefix(name, "runtime.") && (strings.Contains(name, "Read") || strings.Contains(name, "Set")):
		return nil
	}
	return nil
}

// ---------- sort.Slice ----------

func (it *Interp) sortSlice(x Value, less Value, stable bool, site ssa.Instruction) {
	iv := x.(Iface)
	n := sliceLen(iv.v)
	lessFn := func(i, j int) bool {
		r := it.call(less, []Value{uint64(i), uint64(j)}, site)
		switch b := r.(type) {
		case bool:
			return b
		case *term.Term:
			return it.branch(b)
		}
		panic("sort less result")
	}
	swap := func(i, j int) {
		switch s := iv.v.(type) {
		case []Value:
			s[i], s[j] = s[j], s[i]
		case NumSlice:
			tmp := newBuf(s.esz)
			copyRange(tmp, 0, s.buf, s.off+i*s.esz, s.esz)
			copyRange(s.buf, s.off+i*s.esz, s.buf, s.off+j*s.esz, s.esz)
			copyRange(s.buf, s.off+j*s.esz, tmp, 0, s.esz)
		}
	}
	// insertion sort (stable). sort.Slice gives no stability guarantee, so any order among equal
	// elements is a legal result; this picks the stable one.
	for i := 1; i < n; i++ {
		for j := i; j > 0 && lessFn(j, j-1); j-- {
			swap(j, j-1)
		}
	}
}

// ---------- WaitGroup (single schedule) ----------

func (it *Interp) wgOp(name string, args []Value) Value {
	return it.ensureSched().wgOp(it, name, args)
}
