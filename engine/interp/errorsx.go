package interp

import (
	"go/types"

	"golang.org/x/tools/go/ssa"
)

// Error plumbing. The standard errors.Is goes through internal/reflectlite and
// github.com/cockroachdb/errors captures stacks and encodes markers; both are replaced by models that
// keep exactly what callers rely on: identity of sentinel errors through wrapping, Wrap(nil) == nil.

func (it *Interp) errMethod(e Iface, name string) *ssa.Function {
	if e.t == nil {
		return nil
	}
	ms := it.prog.MethodSets.MethodSet(e.t)
	for i := 0; i < ms.Len(); i++ {
		sel := ms.At(i)
		if sel.Obj().Name() == name {
			return it.prog.MethodValue(sel)
		}
	}
	return nil
}

func (it *Interp) errUnwrap(e Iface, site ssa.Instruction) (Iface, bool) {
	f := it.errMethod(e, "Unwrap")
	if f == nil || f.Signature.Params().Len() != 0 || f.Signature.Results().Len() != 1 {
		return Iface{}, false
	}
	if _, ok := f.Signature.Results().At(0).Type().Underlying().(*types.Interface); !ok {
		return Iface{}, false // Unwrap() []error is not followed
	}
	r, _ := it.callFunction(f, []Value{e.v}, nil, site).(Iface)
	return r, true
}

func (it *Interp) errorsIs(err, target Iface, site ssa.Instruction) Value {
	for depth := 0; depth < 64; depth++ {
		if err.t == nil {
			return target.t == nil
		}
		if target.t != nil && types.Identical(err.t, target.t) && types.Comparable(err.t) {
			eq := it.equals(err.t, err.v, target.v)
			if b, ok := eq.(bool); ok {
				if b {
					return true
				}
			} else {
				panic(unsupported("errors.Is on errors with symbolic contents"))
			}
		}
		if f := it.errMethod(err, "Is"); f != nil && f.Signature.Params().Len() == 1 {
			if b, ok := it.callFunction(f, []Value{err.v, target}, nil, site).(bool); ok && b {
				return true
			}
		}
		next, ok := it.errUnwrap(err, site)
		if !ok {
			return false
		}
		err = next
	}
	panic(unsupported("errors.Is: chain too long"))
}

func (it *Interp) wrapErr(err Iface, msg Value) Value {
	if err.t == nil {
		return Iface{}
	}
	if pkg := it.prog.ImportedPackage("fmt"); pkg != nil {
		if tn := pkg.Type("wrapError"); tn != nil {
			var slot Value = Struct{msg, err}
			return Iface{t: it.ptrTo(tn.Type()), v: &slot}
		}
	}
	return err
}

func init() {
	const cr = "github.com/cockroachdb/errors."
	reg(func(it *Interp, fn *ssa.Function, args []Value, site ssa.Instruction) Value {
		return it.errorsIs(args[0].(Iface), args[1].(Iface), site)
	}, "errors.Is", cr+"Is")
	reg(func(it *Interp, fn *ssa.Function, args []Value, site ssa.Instruction) Value {
		return it.newErrorString(args[0])
	}, cr+"New")
	reg(func(it *Interp, fn *ssa.Function, args []Value, site ssa.Instruction) Value {
		return it.errorf(fn, args[0], args[1])
	}, cr+"Newf", cr+"Errorf")
	reg(func(it *Interp, fn *ssa.Function, args []Value, site ssa.Instruction) Value {
		return it.wrapErr(args[0].(Iface), args[1])
	}, cr+"Wrap", cr+"WithMessage")
	reg(func(it *Interp, fn *ssa.Function, args []Value, site ssa.Instruction) Value {
		e := args[0].(Iface)
		if e.t == nil {
			return Iface{}
		}
		return it.wrapErr(e, it.sprintf(args[1], args[2]))
	}, cr+"Wrapf", cr+"WithMessagef")
	reg(func(it *Interp, fn *ssa.Function, args []Value, site ssa.Instruction) Value {
		return args[0]
	}, cr+"WithStack")
	reg(func(it *Interp, fn *ssa.Function, args []Value, site ssa.Instruction) Value {
		a, b := args[0].(Iface), args[1].(Iface)
		if a.t == nil {
			return b
		}
		return a
	}, cr+"CombineErrors")
	reg(func(it *Interp, fn *ssa.Function, args []Value, site ssa.Instruction) Value {
		e := args[0].(Iface)
		r, ok := it.errUnwrap(e, site)
		if !ok {
			return Iface{}
		}
		return r
	}, "errors.Unwrap", cr+"Unwrap")
}

func init() {
	// util.IsObjectNil inspects its argument by reflection: model it on the executor's own values.
	reg(func(it *Interp, fn *ssa.Function, args []Value, site ssa.Instruction) Value {
		e, _ := args[0].(Iface)
		if e.t == nil {
			return false // reflect.ValueOf(nil).Kind() is Invalid
		}
		switch e.t.Underlying().(type) {
		case *types.Pointer:
			switch p := e.v.(type) {
			case *Value:
				return p == nil
			case BytePtr:
				return p.buf == nil
			case nil:
				return true
			}
			return false
		case *types.Map:
			m, _ := e.v.(*MapObj)
			return m == nil
		case *types.Chan:
			c, _ := e.v.(*ChanObj)
			return c == nil
		case *types.Slice:
			return isNilSlice(e.v)
		case *types.Signature:
			return e.v == nil
		}
		return false
	}, "github.com/openGemini/openGemini/lib/util.IsObjectNil")
}
