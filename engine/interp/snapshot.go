package interp

import (
	"fmt"
	"go/types"
	"sort"
	"unsafe"

	"golang.org/x/tools/go/ssa"

	"gosmt/term"
)

// Package-level state must not leak from one explored path into the next. Re-running the package
// initialisers on every path is exact but far too slow (millions of steps), so each worker keeps a
// pristine deep copy of all globals taken right after initialisation and starts every path from a
// fresh deep copy of it. The copy preserves all aliasing, including interior pointers into struct
// fields and slice backing arrays.

const cellSize = unsafe.Sizeof(Value(nil))

type interval struct {
	lo, hi uintptr // [lo, hi)
	arena  []Value
}

type copier struct {
	ivs     []interval
	seenPtr map[*Value]bool
	seenArr map[[2]uintptr]bool
	bufs    map[*ByteBuf]*ByteBuf
	maps    map[*MapObj]*MapObj
	chans   map[*ChanObj]*ChanObj
	clos    map[*Closure]*Closure
	mapList []*MapObj
	cells   int
}

func newCopier() *copier {
	return &copier{seenPtr: map[*Value]bool{}, seenArr: map[[2]uintptr]bool{}, bufs: map[*ByteBuf]*ByteBuf{},
		maps: map[*MapObj]*MapObj{}, chans: map[*ChanObj]*ChanObj{}, clos: map[*Closure]*Closure{}}
}

func (c *copier) addSlice(s []Value) {
	if cap(s) == 0 {
		return
	}
	full := s[:cap(s)]
	base := uintptr(unsafe.Pointer(&full[0]))
	key := [2]uintptr{base, uintptr(cap(s))}
	if c.seenArr[key] {
		return
	}
	c.seenArr[key] = true
	c.ivs = append(c.ivs, interval{lo: base, hi: base + uintptr(cap(s))*cellSize})
	for i := range full {
		c.walk(full[i])
	}
}

func (c *copier) walk(v Value) {
	switch x := v.(type) {
	case nil, bool, uint64, float32, float64, string, complex128, *term.Term, *ssa.Function, *ssa.Builtin, poison, types.Type:
	case *Value:
		if x == nil || c.seenPtr[x] {
			return
		}
		c.seenPtr[x] = true
		a := uintptr(unsafe.Pointer(x))
		c.ivs = append(c.ivs, interval{lo: a, hi: a + cellSize})
		c.walk(*x)
	case Struct:
		c.addSlice(x)
	case Array:
		c.addSlice(x)
	case Tuple:
		c.addSlice(x)
	case []Value:
		c.addSlice(x)
	case NumSlice:
		c.buf(x.buf)
	case NumArray:
		c.buf(x.buf)
	case BytePtr:
		c.buf(x.buf)
	case SymStr:
		c.buf(x.buf)
	case symBytePtr:
		c.buf(x.s.buf)
	case Iface:
		c.walk(x.v)
	case *Closure:
		if x == nil || c.clos[x] != nil {
			return
		}
		c.clos[x] = &Closure{Fn: x.Fn}
		c.addSlice(x.Env)
	case *MapObj:
		if x == nil || c.maps[x] != nil {
			return
		}
		c.maps[x] = &MapObj{}
		c.mapList = append(c.mapList, x)
		c.addSlice(x.keys)
		c.addSlice(x.vals)
	case *ChanObj:
		if x == nil || c.chans[x] != nil {
			return
		}
		c.chans[x] = &ChanObj{}
		c.addSlice(x.q)
	default:
		panic(fmt.Sprintf("snapshot: unhandled value kind %T", v))
	}
}

func (c *copier) buf(b *ByteBuf) {
	if b == nil || c.bufs[b] != nil {
		return
	}
	nb := &ByteBuf{b: append([]byte(nil), b.b...)}
	if b.b == nil {
		nb.b = nil
	}
	if len(b.sym) > 0 {
		nb.sym = make(map[int]*term.Term, len(b.sym))
		for k, t := range b.sym {
			nb.sym[k] = t
		}
	}
	c.bufs[b] = nb
}

// layout merges the recorded intervals into arenas.
func (c *copier) layout() {
	sort.Slice(c.ivs, func(i, j int) bool { return c.ivs[i].lo < c.ivs[j].lo })
	var out []interval
	for _, iv := range c.ivs {
		if n := len(out); n > 0 && iv.lo < out[n-1].hi {
			if iv.hi > out[n-1].hi {
				out[n-1].hi = iv.hi
			}
			continue
		}
		out = append(out, iv)
	}
	for i := range out {
		n := int((out[i].hi - out[i].lo) / cellSize)
		out[i].arena = make([]Value, n)
		c.cells += n
	}
	c.ivs = out
}

func (c *copier) find(a uintptr) *interval {
	i := sort.Search(len(c.ivs), func(i int) bool { return c.ivs[i].hi > a })
	if i == len(c.ivs) || c.ivs[i].lo > a {
		panic("snapshot: pointer outside every arena")
	}
	return &c.ivs[i]
}

func (c *copier) ptr(p *Value) *Value {
	if p == nil {
		return nil
	}
	a := uintptr(unsafe.Pointer(p))
	iv := c.find(a)
	return &iv.arena[(a-iv.lo)/cellSize]
}

func (c *copier) slice(s []Value) []Value {
	if s == nil {
		return nil
	}
	if cap(s) == 0 {
		return []Value{}
	}
	full := s[:cap(s)]
	a := uintptr(unsafe.Pointer(&full[0]))
	iv := c.find(a)
	i := int((a - iv.lo) / cellSize)
	return iv.arena[i : i+len(s) : i+cap(s)]
}

func (c *copier) xlate(v Value) Value {
	switch x := v.(type) {
	case *Value:
		return c.ptr(x)
	case Struct:
		return Struct(c.slice(x))
	case Array:
		return Array(c.slice(x))
	case Tuple:
		return Tuple(c.slice(x))
	case []Value:
		return c.slice(x)
	case NumSlice:
		x.buf = c.bufs[x.buf]
		return x
	case NumArray:
		x.buf = c.bufs[x.buf]
		return x
	case BytePtr:
		x.buf = c.bufs[x.buf]
		return x
	case SymStr:
		x.buf = c.bufs[x.buf]
		return x
	case symBytePtr:
		x.s.buf = c.bufs[x.s.buf]
		return x
	case Iface:
		return Iface{t: x.t, v: c.xlate(x.v)}
	case *Closure:
		if x == nil {
			return x
		}
		return c.clos[x]
	case *MapObj:
		if x == nil {
			return x
		}
		return c.maps[x]
	case *ChanObj:
		if x == nil {
			return x
		}
		return c.chans[x]
	}
	return v
}

// fill copies every cell of every arena, translating references.
func (c *copier) fill() {
	for i := range c.ivs {
		iv := &c.ivs[i]
		for k := range iv.arena {
			old := *(*Value)(unsafe.Pointer(iv.lo + uintptr(k)*cellSize))
			iv.arena[k] = c.xlate(old)
		}
	}
	for old, nw := range c.clos {
		nw.Env = c.slice(old.Env)
	}
	for old, nw := range c.chans {
		*nw = *old
		nw.q = c.slice(old.q)
	}
	for _, old := range c.mapList {
		nw := c.maps[old]
		nw.keys = c.slice(old.keys)
		nw.vals = c.slice(old.vals)
		nw.live = append([]bool(nil), old.live...)
		nw.n = old.n
		nw.hasSymK = old.hasSymK
		nw.idx = make(map[interface{}]int, len(old.idx))
		for i, k := range nw.keys {
			if !nw.live[i] {
				continue
			}
			if hk, ok := hashKey(k); ok {
				nw.idx[hk] = i
			}
		}
	}
}

// copyGlobals deep-copies the global cells selected by want (nil = all), preserving aliasing among them.
func copyGlobals(src map[*ssa.Global]*Value, want map[*ssa.Global]bool) (map[*ssa.Global]*Value, int) {
	c := newCopier()
	for g, p := range src {
		if want == nil || want[g] {
			c.walk(p)
		}
	}
	c.layout()
	c.fill()
	dst := make(map[*ssa.Global]*Value, len(src))
	for g, p := range src {
		if want == nil || want[g] {
			dst[g] = c.ptr(p)
		}
	}
	return dst, c.cells
}

// snapshotT is an immutable image of all package-level state after initialisation. It is shared by
// the workers; each path starts from a private deep copy of the globals its worker has touched so far.
type snapshotT struct {
	globals map[*ssa.Global]*Value
	inited  map[*ssa.Package]bool
	order   []*ssa.Package
	cells   int
}

// retryPath aborts a path that touched a global for which the worker holds no private copy yet; the
// path is re-run from the start with that global included.
type retryPath struct{}

func (s *snapshotT) covers(inited map[*ssa.Package]bool) bool {
	for p := range inited {
		if !s.inited[p] {
			return false
		}
	}
	return true
}

// beginPathGlobals installs the package-level state a path starts from.
func (it *Interp) beginPathGlobals() {
	if it.cfg.KeepGlobals {
		return
	}
	it.sh.mu.Lock()
	s := it.sh.snap
	it.sh.mu.Unlock()
	it.snap = s
	if s == nil {
		it.globals = map[*ssa.Global]*Value{}
		it.inited = map[*ssa.Package]bool{}
		it.initOrder = nil
		return
	}
	it.globals, _ = copyGlobals(s.globals, it.touched)
	it.inited = make(map[*ssa.Package]bool, len(s.inited))
	for p := range s.inited {
		it.inited[p] = true
	}
	it.initOrder = append(it.initOrder[:0], s.order...)
}

// snapshotGlobal is called for a global the current path has no private cell for.
func (it *Interp) snapshotGlobal(g *ssa.Global) {
	if it.snap == nil || it.building {
		return
	}
	if _, ok := it.snap.globals[g]; ok {
		it.touched[g] = true
		panic(retryPath{})
	}
}

// endPathGlobals publishes a new snapshot when the finished path initialised packages that the
// current one does not cover: all packages seen so far are initialised again, outside any path.
func (it *Interp) endPathGlobals() {
	if it.cfg.KeepGlobals {
		return
	}
	it.sh.mu.Lock()
	s := it.sh.snap
	it.sh.mu.Unlock()
	if s != nil && s.covers(it.inited) {
		return
	}
	order := it.initOrder
	if s != nil {
		// union, keeping the published order first
		seen := map[*ssa.Package]bool{}
		var u []*ssa.Package
		for _, p := range s.order {
			seen[p] = true
			u = append(u, p)
		}
		for _, p := range order {
			if !seen[p] {
				seen[p] = true
				u = append(u, p)
			}
		}
		order = u
	}
	it.building = true
	it.globals = map[*ssa.Global]*Value{}
	it.inited = map[*ssa.Package]bool{}
	it.initOrder = nil
	it.stack = it.stack[:0]
	it.depth = 0
	saved := it.steps
	it.steps = 0
	func() {
		defer func() {
			if r := recover(); r != nil {
				if _, ok := r.(killed); ok {
					panic(r)
				}
				it.addInitIssue(fmt.Sprintf("re-initialisation for the snapshot stopped: %v", r))
			}
		}()
		for _, p := range order {
			it.ensureInit(p)
		}
	}()
	it.steps = saved
	it.building = false
	ns := &snapshotT{order: it.initOrder}
	ns.globals, ns.cells = copyGlobals(it.globals, nil)
	ns.inited = make(map[*ssa.Package]bool, len(it.inited))
	for p := range it.inited {
		ns.inited[p] = true
	}
	it.sh.mu.Lock()
	if it.sh.snap == nil || !it.sh.snap.covers(ns.inited) {
		it.sh.snap = ns
		it.sh.snapshots++
		it.sh.snapCells = ns.cells
	}
	it.sh.mu.Unlock()
}
