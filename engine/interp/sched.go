package interp

import (
	"fmt"
	"go/types"
	"math"

	"golang.org/x/tools/go/ssa"
)

func mathFloat64bits(f float64) uint64 { return math.Float64bits(f) }
func mathFloat32bits(f float32) uint32 { return math.Float32bits(f) }

// Cooperative, deterministic scheduling of interpreted goroutines: exactly one runs at a time;
// a goroutine runs until it blocks or ends; the ready queue is FIFO. One schedule is explored.

type gor struct {
	id          int
	wake        chan bool // true = run, false = die
	done        bool
	stack       []*frame
	depth       int
	deferFrames []*frame
	blockedOn   string
}

type killed struct{}

type scheduler struct {
	cur    *gor
	main   *gor
	runq   []*gor
	all    []*gor
	abort  interface{} // panic value raised in a non-main goroutine
	nextID int
	wg     map[*Value]int
}

func (it *Interp) ensureSched() *scheduler {
	if it.sched == nil {
		m := &gor{id: 0, wake: make(chan bool)}
		it.sched = &scheduler{cur: m, main: m, wg: map[*Value]int{}, nextID: 1}
	}
	return it.sched
}

func (it *Interp) spawn(fn Value, args []Value, site ssa.Instruction) {
	if it.initMode {
		panic(unsupported("goroutine started during package initialisation"))
	}
	s := it.ensureSched()
	g := &gor{id: s.nextID, wake: make(chan bool)}
	s.nextID++
	s.all = append(s.all, g)
	s.runq = append(s.runq, g)
	go func() {
		if run := <-g.wake; !run {
			g.done = true
			s.main.wake <- false // acknowledge
			return
		}
		defer func() {
			r := recover()
			g.done = true
			if _, isKill := r.(killed); isKill {
				s.main.wake <- false
				return
			}
			if r != nil && s.abort == nil {
				s.abort = r
			}
			// hand over: on abort go straight to main
			if s.abort != nil {
				s.cur = s.main
				it.stack, it.depth, it.deferFrames = s.main.stack, s.main.depth, s.main.deferFrames
				s.main.wake <- true
				return
			}
			next := s.pickNext()
			if next == nil {
				// nobody runnable: main must be blocked forever
				s.abort = unsupported("deadlock: all goroutines blocked (" + s.main.blockedOn + ")")
				next = s.main
			}
			s.cur = next
			it.stack, it.depth, it.deferFrames = next.stack, next.depth, next.deferFrames
			next.wake <- true
		}()
		it.call(fn, args, site)
	}()
}

func (s *scheduler) pickNext() *gor {
	for len(s.runq) > 0 {
		g := s.runq[0]
		s.runq = s.runq[1:]
		if !g.done {
			return g
		}
	}
	return nil
}

// yield lets other goroutines run; the caller is re-queued at the tail.
func (it *Interp) yield(why string) {
	s := it.sched
	self := s.cur
	self.blockedOn = why
	self.stack, self.depth, self.deferFrames = it.stack, it.depth, it.deferFrames
	s.runq = append(s.runq, self)
	next := s.pickNext()
	if next == self {
		return
	}
	s.cur = next
	it.stack, it.depth, it.deferFrames = next.stack, next.depth, next.deferFrames
	next.wake <- true
	if run := <-self.wake; !run {
		panic(killed{})
	}
	if self == s.main && s.abort != nil {
		a := s.abort
		s.abort = nil
		panic(a)
	}
}

// blockUntil yields until cond holds; detects global deadlock.
func (it *Interp) blockUntil(cond func() bool, why string) {
	if cond() {
		return
	}
	if it.sched == nil {
		panic(unsupported("deadlock: single goroutine blocks on " + why))
	}
	s := it.sched
	spins := 0
	for !cond() {
		// if nobody else can run, this is a deadlock
		others := 0
		for _, g := range s.runq {
			if !g.done && g != s.cur {
				others++
			}
		}
		if others == 0 {
			panic(unsupported("deadlock: goroutine blocks forever on " + why))
		}
		spins++
		if spins > 100000 {
			panic(boundHit{"scheduler spin on " + why})
		}
		// a round in which every other goroutine is also blocked is a deadlock: detect by
		// counting consecutive yields without progress
		before := it.steps
		it.yield(why)
		if it.steps == before {
			// nobody executed a single instruction
			panic(unsupported("deadlock: no goroutine can make progress (" + why + ")"))
		}
	}
}

// killAll terminates every remaining goroutine of the path (called on the worker goroutine).
func (it *Interp) killAll() {
	s := it.sched
	if s == nil {
		return
	}
	for _, g := range s.all {
		if !g.done {
			g.wake <- false
			<-s.main.wake
		}
	}
	it.sched = nil
}

// ---------- channels ----------

func (it *Interp) chanSend(c Value, v Value) {
	ch, _ := c.(*ChanObj)
	if ch == nil {
		it.blockUntil(func() bool { return false }, "send on nil channel")
	}
	if ch.closed {
		panic(it.runtimePanic("send on closed channel"))
	}
	if ch.cap > 0 {
		it.blockUntil(func() bool { return len(ch.q) < ch.cap || ch.closed }, "chan send")
		if ch.closed {
			panic(it.runtimePanic("send on closed channel"))
		}
		ch.q = append(ch.q, copyVal(v))
		return
	}
	it.blockUntil(func() bool { return len(ch.q) == 0 }, "unbuffered send (slot)")
	ch.q = append(ch.q, copyVal(v))
	n := ch.recvWaiting
	_ = n
	cnt := ch.recvCount
	it.blockUntil(func() bool { return ch.recvCount > cnt }, "unbuffered send (rendezvous)")
}

func (it *Interp) chanRecv(c Value, t types.Type, commaOk bool) (Value, bool) {
	ch, _ := c.(*ChanObj)
	if ch == nil {
		it.blockUntil(func() bool { return false }, "receive on nil channel")
	}
	ch.recvWaiting++
	it.blockUntil(func() bool { return len(ch.q) > 0 || ch.closed }, "chan receive")
	ch.recvWaiting--
	if len(ch.q) > 0 {
		v := ch.q[0]
		ch.q = ch.q[1:]
		ch.recvCount++
		return v, true
	}
	return it.zero(t), false
}

func (it *Interp) chanClose(c Value) {
	ch, _ := c.(*ChanObj)
	if ch == nil {
		panic(it.runtimePanic("close of nil channel"))
	}
	if ch.closed {
		panic(it.runtimePanic("close of closed channel"))
	}
	ch.closed = true
}

func (it *Interp) visitSelect(fr *frame, instr *ssa.Select) Value {
	type st struct {
		ch   *ChanObj
		send Value
		recv bool
	}
	states := make([]st, len(instr.States))
	for i, s := range instr.States {
		ch, _ := fr.get(s.Chan).(*ChanObj)
		states[i] = st{ch: ch, recv: s.Dir == types.RecvOnly}
		if s.Send != nil {
			states[i].send = fr.get(s.Send)
		}
	}
	ready := func() int {
		for i, s := range states {
			if s.ch == nil {
				continue
			}
			if s.recv {
				if len(s.ch.q) > 0 || s.ch.closed {
					return i
				}
			} else {
				if s.ch.closed {
					return i
				}
				if s.ch.cap > 0 && len(s.ch.q) < s.ch.cap {
					return i
				}
				if s.ch.cap == 0 && s.ch.recvWaiting > 0 && len(s.ch.q) == 0 {
					return i
				}
			}
		}
		return -1
	}
	chosen := ready()
	if chosen < 0 && instr.Blocking {
		for _, s := range states {
			if s.ch != nil && s.recv {
				s.ch.recvWaiting++
			}
		}
		it.blockUntil(func() bool { return ready() >= 0 }, "select")
		for _, s := range states {
			if s.ch != nil && s.recv {
				s.ch.recvWaiting--
			}
		}
		chosen = ready()
	}
	res := Tuple{uint64(uint(int64(chosen))), false}
	if chosen < 0 {
		res[0] = ^uint64(0)
	}
	for i, s := range instr.States {
		if s.Dir != types.RecvOnly {
			continue
		}
		et := s.Chan.Type().Underlying().(*types.Chan).Elem()
		if i == chosen {
			ch := states[i].ch
			if len(ch.q) > 0 {
				v := ch.q[0]
				ch.q = ch.q[1:]
				ch.recvCount++
				res[1] = true
				res = append(res, v)
			} else {
				res = append(res, it.zero(et))
			}
		} else {
			res = append(res, it.zero(et))
		}
	}
	if chosen >= 0 && !states[chosen].recv {
		ch := states[chosen].ch
		if ch.closed {
			panic(it.runtimePanic("send on closed channel"))
		}
		ch.q = append(ch.q, copyVal(states[chosen].send))
		if ch.cap == 0 {
			cnt := ch.recvCount
			it.blockUntil(func() bool { return ch.recvCount > cnt }, "select send rendezvous")
		}
	}
	return res
}

// ---------- WaitGroup ----------

func (s *scheduler) wgOp(it *Interp, name string, args []Value) Value {
	p := args[0].(*Value)
	switch name {
	case "Add":
		s.wg[p] += int(int64(args[1].(uint64)))
		if s.wg[p] < 0 {
			panic(it.runtimePanic("sync: negative WaitGroup counter"))
		}
	case "Done":
		s.wg[p]--
		if s.wg[p] < 0 {
			panic(it.runtimePanic("sync: negative WaitGroup counter"))
		}
	case "Wait":
		it.blockUntil(func() bool { return s.wg[p] <= 0 }, "WaitGroup.Wait")
	}
	return nil
}

var _ = fmt.Sprint
