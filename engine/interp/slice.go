package interp

import (
	"gosmt/term"
)

// Constraint independence: the path condition is kept satisfiable, so sat(pc ∧ q) only depends on the
// conjuncts of pc that share a variable (or an uninterpreted function symbol), directly or through
// other conjuncts, with q. Hard arithmetic in an unrelated part of the path condition then no longer
// makes a trivial query (a Choose, a flag) expensive.

type symSet map[string]struct{}

func (it *Interp) symsOf(t *term.Term) symSet {
	if it.symMemo == nil {
		it.symMemo = map[*term.Term]symSet{}
	}
	if s, ok := it.symMemo[t]; ok {
		return s
	}
	var s symSet
	switch t.Op {
	case term.OpVar:
		s = symSet{t.Name: {}}
	case term.OpConst:
		s = nil
	default:
		// sets are immutable once memoised: share the set of a single contributing argument, else build a union
		var only symSet
		n := 0
		for _, a := range t.A {
			if as := it.symsOf(a); len(as) > 0 {
				only = as
				n++
			}
		}
		if n == 1 && t.Op != term.OpUF {
			s = only
		} else if n > 0 || t.Op == term.OpUF {
			s = symSet{}
			for _, a := range t.A {
				for k := range it.symsOf(a) {
					s[k] = struct{}{}
				}
			}
			if t.Op == term.OpUF {
				s["uf!"+t.Name] = struct{}{}
			}
		}
	}
	it.symMemo[t] = s
	return s
}

// slice returns the conjuncts of the path condition connected to q, and the symbols they mention.
func (it *Interp) slice(q *term.Term) ([]*term.Term, symSet) {
	reach := symSet{}
	for k := range it.symsOf(q) {
		reach[k] = struct{}{}
	}
	taken := make([]bool, len(it.pc))
	for changed := true; changed; {
		changed = false
		for i, p := range it.pc {
			if taken[i] {
				continue
			}
			ps := it.symsOf(p)
			hit := false
			for k := range ps {
				if _, ok := reach[k]; ok {
					hit = true
					break
				}
			}
			if !hit {
				continue
			}
			taken[i] = true
			changed = true
			for k := range ps {
				reach[k] = struct{}{}
			}
		}
	}
	var out []*term.Term
	for i, p := range it.pc {
		if taken[i] {
			out = append(out, p)
		}
	}
	return out, reach
}
