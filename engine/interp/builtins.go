package interp

import (
	"fmt"
	"go/types"

	"golang.org/x/tools/go/ssa"

	"gosmt/term"
)

func (it *Interp) callBuiltin(b *ssa.Builtin, args []Value, site ssa.Instruction) Value {
	var sig *types.Signature
	if b.Type() != nil {
		sig, _ = b.Type().(*types.Signature)
	}
	ptype := func(i int) types.Type {
		if sig != nil && i < sig.Params().Len() {
			return sig.Params().At(i).Type()
		}
		return nil
	}
	switch b.Name() {
	case "append":
		if len(args) == 1 {
			return args[0]
		}
		st := ptype(0).Underlying().(*types.Slice)
		return it.appendSlice(st, args[0], args[1])
	case "copy":
		return uint64(it.copySlice(args[0], args[1]))
	case "len":
		switch x := args[0].(type) {
		case *MapObj:
			if x == nil {
				return uint64(0)
			}
			return uint64(x.n)
		case *ChanObj:
			if x == nil {
				return uint64(0)
			}
			return uint64(len(x.q))
		case Array:
			return uint64(len(x))
		case NumArray:
			at := ptype(0).Underlying().(*types.Array)
			return uint64(at.Len())
		case *Value, BytePtr: // pointer to array
			at := ptype(0).Underlying().(*types.Pointer).Elem().Underlying().(*types.Array)
			return uint64(at.Len())
		}
		return uint64(sliceLen(args[0]))
	case "cap":
		switch x := args[0].(type) {
		case *ChanObj:
			if x == nil {
				return uint64(0)
			}
			return uint64(x.cap)
		case Array:
			return uint64(len(x))
		case NumArray:
			at := ptype(0).Underlying().(*types.Array)
			return uint64(at.Len())
		case *Value, BytePtr:
			at := ptype(0).Underlying().(*types.Pointer).Elem().Underlying().(*types.Array)
			return uint64(at.Len())
		}
		return uint64(sliceCap(args[0]))
	case "delete":
		m, _ := args[0].(*MapObj)
		it.mapDelete(m, ptype(0).Underlying().(*types.Map).Key(), args[1])
		return nil
	case "clear":
		switch x := args[0].(type) {
		case *MapObj:
			if x != nil {
				for i := range x.live {
					x.remove(i)
				}
			}
		case []Value:
			et := ptype(0).Underlying().(*types.Slice).Elem()
			for i := range x {
				x[i] = it.zero(et)
			}
		case NumSlice:
			if x.len > 0 {
				n := x.len * x.esz
				for i := 0; i < n; i++ {
					x.buf.b[x.off+i] = 0
				}
				x.buf.clearSym(x.off, n)
			}
		}
		return nil
	case "close":
		it.chanClose(args[0])
		return nil
	case "print", "println":
		return nil
	case "panic":
		panic(&goPanic{v: args[0], stack: it.stackString()})
	case "recover":
		return it.doRecover()
	case "min", "max":
		t := ptype(0)
		r := args[0]
		k, _ := basicInfo(t)
		for _, a := range args[1:] {
			var less Value
			if b.Name() == "min" {
				less = it.binop2Less(t, a, r)
			} else {
				less = it.binop2Less(t, r, a)
			}
			switch l := less.(type) {
			case bool:
				if l {
					r = a
				}
			case *term.Term:
				if k == kString {
					if it.branch(l) {
						r = a
					}
				} else {
					r = it.fromTerm(it.ts.Ite(l, it.toTerm(a, t), it.toTerm(r, t)), t)
				}
			}
		}
		return r
	case "ssa:wrapnilchk":
		if isNilPtr(args[0]) {
			panic(it.runtimePanic(fmt.Sprintf("value method %v called using nil pointer", args[2])))
		}
		return args[0]
	case "real":
		return real(args[0].(complex128))
	case "imag":
		return imag(args[0].(complex128))
	case "complex":
		return complex(args[0].(float64), args[1].(float64))
	case "Add": // unsafe.Add(ptr, len)
		n := it.asIntT(args[1], ptype(1), "unsafe.Add")
		switch p := args[0].(type) {
		case BytePtr:
			return BytePtr{p.buf, p.off + n}
		}
		if n == 0 {
			return args[0]
		}
		panic(unsupported("unsafe.Add on non-byte storage"))
	case "Slice": // unsafe.Slice(ptr, len)
		n := it.asIntT(args[1], ptype(1), "unsafe.Slice len")
		et := ptype(0).Underlying().(*types.Pointer).Elem()
		esz := sizeof(et)
		switch p := args[0].(type) {
		case BytePtr:
			if p.buf == nil {
				return NumSlice{esz: esz}
			}
			if !isNum(et) {
				panic(unsupported("unsafe.Slice of non-numeric element over byte storage"))
			}
			if p.off+n*esz > len(p.buf.b) {
				// cap may legitimately extend to the end of the allocation only
				panic(it.runtimePanic(fmt.Sprintf("unsafe.Slice: %d elements of %d bytes at offset %d exceed allocation of %d bytes", n, esz, p.off, len(p.buf.b))))
			}
			return NumSlice{buf: p.buf, off: p.off, len: n, cap: n, esz: esz}
		case symBytePtr:
			i := int(it.concretize(p.idx, "unsafe.Slice base"))
			return NumSlice{buf: p.s.buf, off: p.s.off + i*p.s.esz, len: n, cap: n, esz: esz}
		case *Value:
			if p == nil {
				if isNum(et) {
					return NumSlice{esz: esz}
				}
				return []Value(nil)
			}
			if n == 0 {
				if isNum(et) {
					return NumSlice{buf: newBuf(0), esz: esz}
				}
				return []Value{}
			}
			// pointer to the first element of a []Value backing: find it via the owner map is not
			// possible; support only n==1 (slice of the single slot) and pointers to numeric slots
			if n == 1 && !isNum(et) {
				// aliasing slice over one slot cannot be expressed with Go slices of Value; copy semantics
				panic(unsupported("unsafe.Slice over a non-numeric single slot"))
			}
			if na, ok := (*p).(NumArray); ok {
				if n*esz > len(na.buf.b) {
					panic(it.runtimePanic("unsafe.Slice exceeds array"))
				}
				return NumSlice{buf: na.buf, off: 0, len: n, cap: n, esz: esz}
			}
			panic(unsupported(fmt.Sprintf("unsafe.Slice over slot holding %T", *p)))
		}
		panic(unsupported(fmt.Sprintf("unsafe.Slice on %T", args[0])))
	case "SliceData":
		switch s := args[0].(type) {
		case NumSlice:
			if s.buf == nil {
				return (*Value)(nil)
			}
			return BytePtr{s.buf, s.off}
		case []Value:
			if cap(s) == 0 {
				return (*Value)(nil)
			}
			return &s[:1][0]
		}
		panic(unsupported("unsafe.SliceData"))
	case "String": // unsafe.String(ptr *byte, len)
		n := it.asIntT(args[1], ptype(1), "unsafe.String len")
		if n == 0 {
			return ""
		}
		switch p := args[0].(type) {
		case BytePtr:
			if p.off+n > len(p.buf.b) {
				panic(it.runtimePanic("unsafe.String exceeds allocation"))
			}
			return normStr(SymStr{p.buf, p.off, n})
		}
		panic(unsupported(fmt.Sprintf("unsafe.String on %T", args[0])))
	case "Sizeof":
		return uint64(sizeof(ptype(0)))
	case "Alignof":
		return uint64(sizes.Alignof(ptype(0)))
	case "StringData":
		b, o, n := strToBuf(args[0])
		if n == 0 {
			return BytePtr{newBuf(0), 0}
		}
		return BytePtr{b, o}
	}
	panic(unsupported("builtin " + b.Name()))
}

func (it *Interp) binop2Less(t types.Type, a, b Value) Value {
	k, w := basicInfo(t)
	switch k {
	case kString:
		return it.strLess(a, b)
	case kInt, kUint:
		_, as := a.(*term.Term)
		_, bs := b.(*term.Term)
		if !as && !bs {
			if k == kInt {
				return sx(a.(uint64), w) < sx(b.(uint64), w)
			}
			return a.(uint64) < b.(uint64)
		}
		if k == kInt {
			return it.boolVal(it.ts.Slt(it.toTerm(a, t), it.toTerm(b, t)))
		}
		return it.boolVal(it.ts.Ult(it.toTerm(a, t), it.toTerm(b, t)))
	case kFloat:
		_, as := a.(*term.Term)
		_, bs := b.(*term.Term)
		if !as && !bs {
			if w == 32 {
				return a.(float32) < b.(float32)
			}
			return a.(float64) < b.(float64)
		}
		return it.boolVal(it.ts.FCmp(term.OpFLt, it.toTerm(a, t), it.toTerm(b, t)))
	}
	panic(unsupported("min/max on " + t.String()))
}

// doRecover implements the recover() builtin: it is effective only when called directly by a
// deferred function while the deferring frame is panicking.
func (it *Interp) doRecover() Value {
	if len(it.deferFrames) == 0 {
		return Iface{}
	}
	fr := it.deferFrames[len(it.deferFrames)-1]
	// the caller of recover must be the deferred function itself: stack top-1 is the function
	// calling recover; its caller must be the frame running defers (fr)
	if !fr.panicking {
		return Iface{}
	}
	gp, ok := fr.panic.(*goPanic)
	if !ok {
		return Iface{}
	}
	fr.panicking = false
	fr.panic = nil
	if iv, ok := gp.v.(Iface); ok {
		return iv
	}
	return Iface{}
}
