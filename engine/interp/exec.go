package interp

import (
	"fmt"
	"go/constant"
	"go/token"
	"go/types"
	"sort"
	"strings"

	"golang.org/x/tools/go/ssa"

	"gosmt/term"
)

type deferred struct {
	fn    Value
	args  []Value
	instr *ssa.Defer
	tail  *deferred
}

type frame struct {
	it        *Interp
	caller    *frame
	fn        *ssa.Function
	block     *ssa.BasicBlock
	prev      *ssa.BasicBlock
	env       map[ssa.Value]Value
	defers    *deferred
	result    Value
	panicking bool
	panic     interface{}
	curInstr  ssa.Instruction
}

func (fr *frame) get(key ssa.Value) Value {
	switch key := key.(type) {
	case nil:
		return nil
	case *ssa.Function:
		return key
	case *ssa.Builtin:
		return key
	case *ssa.Const:
		return fr.it.constValue(key)
	case *ssa.Global:
		return fr.it.globalAddr(key)
	}
	if r, ok := fr.env[key]; ok {
		if p, isP := r.(poison); isP && !fr.it.initMode {
			panic(unsupported("use of value from unsupported initialiser: " + p.why))
		}
		return r
	}
	panic(fmt.Sprintf("get: no value for %T: %v in %s", key, key.Name(), fr.fn))
}

func (it *Interp) constValue(c *ssa.Const) Value {
	if v, ok := it.consts[c]; ok {
		return v
	}
	v := it.constValue0(c)
	it.consts[c] = v
	return v
}

func (it *Interp) constValue0(c *ssa.Const) Value {
	if c.Value == nil {
		return it.zero(c.Type())
	}
	t := c.Type().Underlying()
	if tp, ok := t.(*types.TypeParam); ok {
		_ = tp
		panic(unsupported("const of type parameter type"))
	}
	b, ok := t.(*types.Basic)
	if !ok {
		// e.g. interface-typed nil handled above
		panic(unsupported("const of type " + c.Type().String()))
	}
	k, w := basicInfo(b)
	switch k {
	case kBool:
		return constant.BoolVal(c.Value)
	case kInt:
		return uint64(c.Int64()) & mask(w)
	case kUint, kUnsafePtr:
		return c.Uint64() & mask(w)
	case kFloat:
		if w == 32 {
			return float32(c.Float64())
		}
		return c.Float64()
	case kString:
		if c.Value.Kind() == constant.String {
			return constant.StringVal(c.Value)
		}
		return string(rune(c.Int64()))
	case kComplex:
		return c.Complex128()
	}
	panic(unsupported("const kind " + b.String()))
}

// ---------- globals and package initialisation ----------

func (it *Interp) globalAddr(g *ssa.Global) *Value {
	if p, ok := it.globals[g]; ok {
		return p
	}
	it.snapshotGlobal(g)
	it.ensureInit(g.Pkg)
	if p, ok := it.globals[g]; ok {
		return p
	}
	p := new(Value)
	*p = it.zero(g.Type().(*types.Pointer).Elem())
	it.globals[g] = p
	return p
}

func (it *Interp) ensureInit(pkg *ssa.Package) {
	if pkg == nil || it.inited[pkg] {
		return
	}
	it.inited[pkg] = true
	it.initOrder = append(it.initOrder, pkg)
	// allocate all globals first
	for _, m := range pkg.Members {
		if g, ok := m.(*ssa.Global); ok {
			if _, ok := it.globals[g]; !ok {
				p := new(Value)
				*p = it.zero(g.Type().(*types.Pointer).Elem())
				it.globals[g] = p
			}
		}
	}
	if it.skipInit[pkg.Pkg.Path()] || defaultSkipInit(pkg.Pkg.Path()) {
		return
	}
	initFn := pkg.Func("init")
	if initFn == nil || initFn.Blocks == nil {
		return
	}
	saved := it.initMode
	savedDepth := it.initDepth
	it.initMode = true
	it.initDepth = it.depth
	defer func() {
		it.initMode = saved
		it.initDepth = savedDepth
	}()
	if it.Verbose {
		fmt.Fprintf(it.LogW, "init %s\n", pkg.Pkg.Path())
	}
	func() {
		defer func() {
			if r := recover(); r != nil {
				switch e := r.(type) {
				case unsupportedErr:
					it.addInitIssue(pkg.Pkg.Path()+": "+e.msg)
				case *goPanic:
					it.addInitIssue(pkg.Pkg.Path()+": panic in init: "+it.safePanicString(e))
				case string:
					it.addInitIssue(pkg.Pkg.Path()+": engine: "+e)
				case error:
					it.addInitIssue(pkg.Pkg.Path()+": engine: "+e.Error())
				default:
					panic(r)
				}
			}
		}()
		s0 := it.steps
		it.callSSA(initFn, nil, nil)
		if it.Verbose {
			fmt.Fprintf(it.LogW, "init-done %s steps=%d\n", pkg.Pkg.Path(), it.steps-s0)
		}
	}()
}

// ---------- calls ----------

func (it *Interp) call(fn Value, args []Value, site ssa.Instruction) Value {
	switch f := fn.(type) {
	case *ssa.Function:
		if f == nil {
			panic(it.runtimePanic("call of nil function"))
		}
		return it.callFunction(f, args, nil, site)
	case *Closure:
		return it.callFunction(f.Fn, args, f.Env, site)
	case *ssa.Builtin:
		return it.callBuiltin(f, args, site)
	case nil:
		panic(it.runtimePanic("call of nil function"))
	case poison:
		panic(unsupported("call of value from unsupported initialiser: " + f.why))
	}
	panic(fmt.Sprintf("cannot call %T", fn))
}

func (it *Interp) callFunction(fn *ssa.Function, args []Value, env []Value, site ssa.Instruction) Value {
	// synthesized package initialisers of imported packages are run lazily instead
	if fn.Name() == "init" && fn.Synthetic != "" && fn.Pkg != nil && fn.Signature.Recv() == nil && fn.Parent() == nil && it.initMode {
		if fn.Pkg.Func("init") == fn && it.inited[fn.Pkg] && it.depth > it.initDepth+1 {
			return nil
		}
		if fn.Pkg.Func("init") == fn && !it.inited[fn.Pkg] {
			it.ensureInit(fn.Pkg)
			return nil
		}
	}
	name := it.fnName(fn)
	if stub, ok := it.stubs[name]; ok && !it.inStub[name] {
		it.noteFunc(stub)
		return it.callSSA(stub, args, nil)
	}
	if in, ok := intrinsics[name]; ok {
		return in(it, fn, args, site)
	}
	if in := prefixIntrinsic(name); in != nil {
		return in(it, fn, args, site)
	}
	if fn.Blocks == nil {
		if in := it.externalByShape(fn, name); in != nil {
			return in(it, fn, args, site)
		}
		panic(unsupported("call of external function " + name))
	}
	it.noteFunc(fn)
	return it.callSSA(fn, args, env)
}

func (it *Interp) fnName(fn *ssa.Function) string {
	if n, ok := it.fnNames[fn]; ok {
		return n
	}
	f := fn
	if o := fn.Origin(); o != nil {
		f = o
	}
	n := f.String()
	it.fnNames[fn] = n
	return n
}

func (it *Interp) noteFunc(fn *ssa.Function) {
	if it.initMode {
		return
	}
	it.funcsSeen[fn]++
}

func (it *Interp) callSSA(fn *ssa.Function, args []Value, env []Value) Value {
	it.depth++
	if it.depth > it.MaxDepth {
		panic(boundHit{"call depth at " + it.where()})
	}
	defer func() { it.depth-- }()
	fr := &frame{it: it, fn: fn, env: make(map[ssa.Value]Value, 16)}
	if len(args) != len(fn.Params) {
		panic(fmt.Sprintf("call of %s: %d args for %d params", fn, len(args), len(fn.Params)))
	}
	for i, p := range fn.Params {
		fr.env[p] = args[i]
	}
	for i, fv := range fn.FreeVars {
		fr.env[fv] = env[i]
	}
	for _, l := range fn.Locals {
		p := new(Value)
		fr.env[l] = p
	}
	fr.block = fn.Blocks[0]
	it.stack = append(it.stack, fr)
	defer func() { it.stack = it.stack[:len(it.stack)-1] }()
	for fr.block != nil {
		it.runFrame(fr)
	}
	return fr.result
}

// runFrame executes until return or an unrecovered panic. A recovered panic resumes in the
// function's Recover block.
func (it *Interp) runFrame(fr *frame) {
	defer func() {
		if fr.block == nil {
			return // normal return
		}
		r := recover()
		if r == nil {
			return
		}
		gp, ok := r.(*goPanic)
		if !ok {
			if ue, isU := r.(unsupportedErr); isU && ue.loc == "" {
				ue.loc = it.where() + "\n" + it.stackString()
				panic(ue)
			}
			if bh, isB := r.(boundHit); isB && !strings.Contains(bh.why, " at ") {
				panic(boundHit{bh.why + " at " + it.where()})
			}
			panic(r) // engine-level control flow: no defers
		}
		if it.initMode && false {
			panic(r)
		}
		fr.panicking = true
		fr.panic = gp
		fr.runDefers()
		// recovered
		if fr.fn.Recover != nil {
			fr.block = fr.fn.Recover
			fr.prev = nil
		} else {
			fr.block = nil
			fr.result = it.zeroResult(fr.fn)
		}
	}()
	for {
		blk := fr.block
		// phis
		i := 0
		if fr.prev != nil {
			var pi int = -1
			for k, p := range blk.Preds {
				if p == fr.prev {
					pi = k
					break
				}
			}
			var vals []Value
			for ; i < len(blk.Instrs); i++ {
				phi, ok := blk.Instrs[i].(*ssa.Phi)
				if !ok {
					break
				}
				vals = append(vals, fr.get(phi.Edges[pi]))
			}
			for k := 0; k < i; k++ {
				fr.env[blk.Instrs[k].(*ssa.Phi)] = vals[k]
			}
		}
		jumped := false
		for ; i < len(blk.Instrs); i++ {
			it.steps++
			if it.steps > it.MaxSteps {
				panic(boundHit{"instruction budget at " + it.where()})
			}
			instr := blk.Instrs[i]
			fr.curInstr = instr
			var k continuation
			if it.initMode && it.depth == it.initDepth+1 {
				k = it.visitInit(fr, instr)
			} else {
				k = it.visit(fr, instr)
			}
			switch k {
			case kReturn:
				return
			case kJump:
				jumped = true
			}
			if jumped {
				break
			}
		}
		if !jumped {
			panic("block fell through: " + fr.fn.String())
		}
	}
}

func (it *Interp) zeroResult(fn *ssa.Function) Value {
	res := fn.Signature.Results()
	switch res.Len() {
	case 0:
		return nil
	case 1:
		return it.zero(res.At(0).Type())
	}
	return it.zero(res)
}

func (fr *frame) runDefers() {
	for d := fr.defers; d != nil; d = fr.defers {
		fr.defers = d.tail
		fr.runDefer(d)
	}
	fr.defers = nil
	if fr.panicking {
		panic(fr.panic)
	}
}

func (fr *frame) runDefer(d *deferred) {
	var ok bool
	defer func() {
		if !ok {
			r := recover()
			if gp, isGo := r.(*goPanic); isGo {
				// deferred call panicked: replaces the current panic
				fr.panicking = true
				fr.panic = gp
			} else {
				panic(r)
			}
		}
	}()
	fr.it.deferFrames = append(fr.it.deferFrames, fr)
	defer func() { fr.it.deferFrames = fr.it.deferFrames[:len(fr.it.deferFrames)-1] }()
	fr.it.call(d.fn, d.args, d.instr)
	ok = true
}

type continuation int

const (
	kNext continuation = iota
	kReturn
	kJump
)

func (it *Interp) prepareCall(fr *frame, c *ssa.CallCommon) (Value, []Value) {
	v := fr.get(c.Value)
	var fn Value
	var args []Value
	if c.Method == nil {
		fn = v
	} else {
		recv, ok := v.(Iface)
		if !ok {
			if p, isP := v.(poison); isP {
				panic(unsupported("method call on value from unsupported initialiser: " + p.why))
			}
			panic(fmt.Sprintf("invoke on %T", v))
		}
		if recv.t == nil {
			panic(it.runtimePanic("method value: interface is nil (" + c.Method.Name() + ")"))
		}
		m := it.lookupMethod(recv.t, c.Method)
		if m == nil {
			panic(unsupported(fmt.Sprintf("method %s not found for %s", c.Method.Name(), recv.t)))
		}
		fn = m
		args = append(args, recv.v)
	}
	for _, a := range c.Args {
		args = append(args, fr.get(a))
	}
	return fn, args
}

type methKey struct {
	t types.Type
	m *types.Func
}

func (it *Interp) lookupMethod(t types.Type, m *types.Func) *ssa.Function {
	k := methKey{t, m}
	if f, ok := it.methCache[k]; ok {
		return f
	}
	f := it.prog.LookupMethod(t, m.Pkg(), m.Name())
	it.methCache[k] = f
	return f
}

func (it *Interp) asInt(v Value, what string) int {
	switch x := v.(type) {
	case uint64:
		return int(int64(x))
	case *term.Term:
		return int(int64(it.concretize(x, what)))
	}
	panic(fmt.Sprintf("asInt of %T (%s)", v, what))
}

// asIntT interprets v of static integer type t as a Go int (sign-aware).
func (it *Interp) asIntT(v Value, t types.Type, what string) int {
	k, w := basicInfo(t)
	switch x := v.(type) {
	case uint64:
		if k == kInt {
			return int(sx(x, w))
		}
		return int(x)
	case *term.Term:
		c := it.concretize(x, what)
		if k == kInt {
			return int(sx(c, w))
		}
		return int(c)
	}
	panic(fmt.Sprintf("asIntT of %T (%s)", v, what))
}

func (it *Interp) visit(fr *frame, instr ssa.Instruction) continuation {
	switch instr := instr.(type) {
	case *ssa.DebugRef:
	case *ssa.UnOp:
		fr.env[instr] = it.visitUnOp(fr, instr)
	case *ssa.BinOp:
		fr.env[instr] = it.binop(instr.Op, instr.X.Type(), instr.Y.Type(), fr.get(instr.X), fr.get(instr.Y))
	case *ssa.Call:
		fn, args := it.prepareCall(fr, &instr.Call)
		if it.initMode && it.depth == it.initDepth+1 {
			fr.env[instr] = it.callGuarded(fn, args, instr)
		} else {
			fr.env[instr] = it.call(fn, args, instr)
		}
	case *ssa.ChangeInterface:
		fr.env[instr] = fr.get(instr.X)
	case *ssa.ChangeType:
		fr.env[instr] = fr.get(instr.X)
	case *ssa.Convert:
		fr.env[instr] = it.conv(instr.X.Type(), instr.Type(), fr.get(instr.X))
	case *ssa.MultiConvert:
		fr.env[instr] = it.conv(instr.X.Type(), instr.Type(), fr.get(instr.X))
	case *ssa.SliceToArrayPointer:
		fr.env[instr] = it.sliceToArrayPtr(instr, fr.get(instr.X))
	case *ssa.MakeInterface:
		fr.env[instr] = Iface{t: instr.X.Type(), v: fr.get(instr.X)}
	case *ssa.Extract:
		tv := fr.get(instr.Tuple)
		if p, ok := tv.(poison); ok {
			fr.env[instr] = p
		} else {
			fr.env[instr] = tv.(Tuple)[instr.Index]
		}
	case *ssa.Slice:
		fr.env[instr] = it.visitSlice(fr, instr)
	case *ssa.Return:
		switch len(instr.Results) {
		case 0:
		case 1:
			fr.result = fr.get(instr.Results[0])
		default:
			res := make(Tuple, len(instr.Results))
			for i, r := range instr.Results {
				res[i] = fr.get(r)
			}
			fr.result = res
		}
		fr.block = nil
		return kReturn
	case *ssa.RunDefers:
		fr.runDefers()
	case *ssa.Panic:
		panic(&goPanic{v: fr.get(instr.X), stack: it.stackString()})
	case *ssa.Send:
		it.chanSend(fr.get(instr.Chan), fr.get(instr.X))
	case *ssa.Store:
		it.store(fr.get(instr.Addr), instr.Val.Type(), fr.get(instr.Val))
	case *ssa.If:
		succ := 1
		c := fr.get(instr.Cond)
		switch cv := c.(type) {
		case bool:
			if cv {
				succ = 0
			}
		case *term.Term:
			if it.branch(cv) {
				succ = 0
			}
		case poison:
			panic(unsupported("branch on value from unsupported initialiser: " + cv.why))
		default:
			panic(fmt.Sprintf("If on %T", c))
		}
		fr.prev, fr.block = fr.block, fr.block.Succs[succ]
		return kJump
	case *ssa.Jump:
		fr.prev, fr.block = fr.block, fr.block.Succs[0]
		return kJump
	case *ssa.Defer:
		fn, args := it.prepareCall(fr, &instr.Call)
		defers := &fr.defers
		if instr.DeferStack != nil {
			if into := fr.get(instr.DeferStack); into != nil {
				defers = into.(**deferred)
			}
		}
		*defers = &deferred{fn: fn, args: args, instr: instr, tail: *defers}
	case *ssa.Go:
		fn, args := it.prepareCall(fr, &instr.Call)
		it.spawn(fn, args, instr)
	case *ssa.MakeChan:
		fr.env[instr] = &ChanObj{cap: it.asInt(fr.get(instr.Size), "chan size")}
	case *ssa.Alloc:
		var addr *Value
		if instr.Heap {
			addr = new(Value)
			fr.env[instr] = addr
		} else {
			addr = fr.env[instr].(*Value)
		}
		*addr = it.zero(instr.Type().Underlying().(*types.Pointer).Elem())
	case *ssa.MakeSlice:
		n := it.asIntT(fr.get(instr.Len), instr.Len.Type(), "make len")
		c := it.asIntT(fr.get(instr.Cap), instr.Cap.Type(), "make cap")
		if n < 0 || c < n {
			panic(it.runtimePanic("makeslice: len out of range"))
		}
		if c > it.MaxAlloc {
			panic(boundHit{fmt.Sprintf("make of %d elements", c)})
		}
		fr.env[instr] = it.makeSlice(instr.Type().Underlying().(*types.Slice).Elem(), n, c)
	case *ssa.MakeMap:
		fr.env[instr] = newMap()
	case *ssa.Range:
		fr.env[instr] = it.rangeIter(fr.get(instr.X), instr.X.Type())
	case *ssa.Next:
		fr.env[instr] = it.next(fr.get(instr.Iter).(*RangeIter), instr)
	case *ssa.FieldAddr:
		x := fr.get(instr.X)
		p, ok := x.(*Value)
		if !ok {
			if _, isB := x.(BytePtr); isB {
				panic(unsupported("field address inside byte storage (struct viewed through unsafe)"))
			}
			if ps, isP := x.(poison); isP {
				panic(unsupported("field of value from unsupported initialiser: " + ps.why))
			}
			panic(fmt.Sprintf("FieldAddr on %T", x))
		}
		if p == nil {
			panic(it.runtimePanic("invalid memory address or nil pointer dereference"))
		}
		st, ok := (*p).(Struct)
		if !ok {
			if ps, isP := (*p).(poison); isP {
				panic(unsupported("field of value from unsupported initialiser: " + ps.why))
			}
			panic(unsupported(fmt.Sprintf("FieldAddr: slot holds %T in %s (reflection or unsafe struct view)\n%s", *p, fr.fn, it.stackString())))
		}
		fr.env[instr] = &st[instr.Field]
	case *ssa.Field:
		fr.env[instr] = copyVal(fr.get(instr.X).(Struct)[instr.Field])
	case *ssa.IndexAddr:
		fr.env[instr] = it.visitIndexAddr(fr, instr)
	case *ssa.Index:
		fr.env[instr] = it.visitIndex(fr, instr)
	case *ssa.Lookup:
		fr.env[instr] = it.visitLookup(fr, instr)
	case *ssa.MapUpdate:
		m := fr.get(instr.Map)
		mo, _ := m.(*MapObj)
		if mo == nil {
			panic(it.runtimePanic("assignment to entry in nil map"))
		}
		it.mapUpdate(mo, instr.Key.Type(), fr.get(instr.Key), fr.get(instr.Value))
	case *ssa.TypeAssert:
		fr.env[instr] = it.typeAssert(instr, fr.get(instr.X))
	case *ssa.MakeClosure:
		var b []Value
		for _, x := range instr.Bindings {
			b = append(b, fr.get(x))
		}
		fr.env[instr] = &Closure{instr.Fn.(*ssa.Function), b}
	case *ssa.Select:
		fr.env[instr] = it.visitSelect(fr, instr)
	case *ssa.Phi:
		panic("phi in block body")
	default:
		panic(unsupported(fmt.Sprintf("instruction %T", instr)))
	}
	return kNext
}

// callGuarded runs a call made directly by a package initialiser; unsupported operations yield poison.
func (it *Interp) callGuarded(fn Value, args []Value, site ssa.Instruction) (res Value) {
	depth := it.depth
	nstack := len(it.stack)
	defer func() {
		if r := recover(); r != nil {
			switch e := r.(type) {
			case unsupportedErr:
				it.depth = depth
				it.stack = it.stack[:nstack]
				res = poison{e.msg}
			case *goPanic:
				it.depth = depth
				it.stack = it.stack[:nstack]
				res = poison{"panic: " + it.safePanicString(e)}
			case string:
				it.depth = depth
				it.stack = it.stack[:nstack]
				res = poison{"engine: " + e}
			case error:
				it.depth = depth
				it.stack = it.stack[:nstack]
				res = poison{"engine: " + e.Error()}
			default:
				panic(r)
			}
		}
	}()
	return it.call(fn, args, site)
}

func (it *Interp) visitUnOp(fr *frame, instr *ssa.UnOp) Value {
	x := fr.get(instr.X)
	switch instr.Op {
	case token.MUL:
		return it.load(x, instr.Type())
	case token.ARROW:
		v, ok := it.chanRecv(x, instr.Type(), instr.CommaOk)
		if instr.CommaOk {
			return Tuple{v, ok}
		}
		return v
	}
	return it.unop(instr.Op, instr.X.Type(), x)
}

func (it *Interp) sliceToArrayPtr(instr *ssa.SliceToArrayPointer, x Value) Value {
	arr := instr.Type().Underlying().(*types.Pointer).Elem().Underlying().(*types.Array)
	n := int(arr.Len())
	if sliceLen(x) < n {
		panic(it.runtimePanic("cannot convert slice to array pointer: length too short"))
	}
	switch s := x.(type) {
	case NumSlice:
		if s.buf == nil {
			return (*Value)(nil)
		}
		return BytePtr{s.buf, s.off}
	case []Value:
		if s == nil {
			return (*Value)(nil)
		}
		var slot Value = Array(s[:n:n])
		return &slot
	}
	panic("sliceToArrayPtr")
}

func (it *Interp) visitSlice(fr *frame, instr *ssa.Slice) Value {
	x := fr.get(instr.X)
	lo, hi, max := -1, -1, -1
	if instr.Low != nil {
		lo = it.asIntT(fr.get(instr.Low), instr.Low.Type(), "slice low")
	}
	if instr.High != nil {
		hi = it.asIntT(fr.get(instr.High), instr.High.Type(), "slice high")
	}
	if instr.Max != nil {
		max = it.asIntT(fr.get(instr.Max), instr.Max.Type(), "slice max")
	}
	if lo < 0 {
		if instr.Low != nil {
			panic(it.runtimePanic(fmt.Sprintf("slice bounds out of range [%d:]", lo)))
		}
		lo = 0
	}
	check := func(l, c int) (int, int) {
		if instr.High == nil {
			hi = l
		}
		if instr.Max == nil {
			max = c
		}
		if hi < 0 || max < 0 || lo > hi || hi > max || max > c {
			panic(it.runtimePanic(fmt.Sprintf("slice bounds out of range [%d:%d:%d] with capacity %d", lo, hi, max, c)))
		}
		return hi, max
	}
	switch s := x.(type) {
	case string, SymStr:
		n := strLen(s)
		if instr.High == nil {
			hi = n
		}
		if lo > hi || hi > n || hi < 0 {
			panic(it.runtimePanic(fmt.Sprintf("slice bounds out of range [%d:%d] with length %d", lo, hi, n)))
		}
		return it.strSlice(s, lo, hi)
	case []Value:
		hi, max = check(len(s), cap(s))
		if s == nil {
			return s
		}
		return s[lo:hi:max]
	case NumSlice:
		hi, max = check(s.len, s.cap)
		return NumSlice{buf: s.buf, off: s.off + lo*s.esz, len: hi - lo, cap: max - lo, esz: s.esz}
	case *Value: // *array
		if s == nil {
			panic(it.runtimePanic("slice of nil array pointer"))
		}
		arrT := instr.X.Type().Underlying().(*types.Pointer).Elem().Underlying().(*types.Array)
		switch a := (*s).(type) {
		case Array:
			hi, max = check(len(a), len(a))
			return []Value(a)[lo:hi:max]
		case NumArray:
			esz := sizeof(arrT.Elem())
			n := int(arrT.Len())
			hi, max = check(n, n)
			return NumSlice{buf: a.buf, off: lo * esz, len: hi - lo, cap: max - lo, esz: esz}
		}
		panic(fmt.Sprintf("slice of pointer to %T", *s))
	case BytePtr:
		arrT := instr.X.Type().Underlying().(*types.Pointer).Elem().Underlying().(*types.Array)
		esz := sizeof(arrT.Elem())
		n := int(arrT.Len())
		hi, max = check(n, n)
		return NumSlice{buf: s.buf, off: s.off + lo*esz, len: hi - lo, cap: max - lo, esz: esz}
	}
	panic(fmt.Sprintf("slice of %T", x))
}

// indexInt resolves an index value to a concrete int, checking bounds against n.
func (it *Interp) indexInt(v Value, t types.Type, n int) int {
	k, w := basicInfo(t)
	switch x := v.(type) {
	case uint64:
		var i int64
		if k == kInt {
			i = sx(x, w)
		} else {
			if x > uint64(1<<62) {
				i = -1
			} else {
				i = int64(x)
			}
		}
		if i < 0 || i >= int64(n) {
			panic(it.runtimePanic(fmt.Sprintf("index out of range [%d] with length %d", i, n)))
		}
		return int(i)
	case *term.Term:
		inb := it.ts.Ult(x, it.ts.BV(uint64(n), w))
		if !it.branch(inb) {
			panic(it.runtimePanic(fmt.Sprintf("index out of range [symbolic] with length %d", n)))
		}
		return int(it.concretize(x, "index"))
	}
	panic(fmt.Sprintf("index of %T", v))
}

func (it *Interp) visitIndexAddr(fr *frame, instr *ssa.IndexAddr) Value {
	x := fr.get(instr.X)
	idx, ityp := it.normIdx(fr.get(instr.Index), instr.Index.Type())
	it.pendingIdx = nil
	switch s := x.(type) {
	case []Value:
		if t, ok := idx.(*term.Term); ok && onlyLoaded(instr) {
			return &s[it.indexByClass(t, ityp, s)]
		}
		return &s[it.indexInt(idx, ityp, len(s))]
	case NumSlice:
		// symbolic index into numeric storage: keep the index symbolic for a following load
		if t, ok := idx.(*term.Term); ok && s.len <= it.MaxIteLen {
			_, w := basicInfo(ityp)
			if !it.branch(it.ts.Ult(t, it.ts.BV(uint64(s.len), w))) {
				panic(it.runtimePanic(fmt.Sprintf("index out of range [symbolic] with length %d", s.len)))
			}
			return symBytePtr{s, t}
		}
		i := it.indexInt(idx, ityp, s.len)
		return BytePtr{s.buf, s.off + i*s.esz}
	case *Value:
		if s == nil {
			panic(it.runtimePanic("invalid memory address or nil pointer dereference"))
		}
		arrT := instr.X.Type().Underlying().(*types.Pointer).Elem().Underlying().(*types.Array)
		switch a := (*s).(type) {
		case Array:
			if t, ok := idx.(*term.Term); ok && onlyLoaded(instr) {
				return &a[it.indexByClass(t, ityp, []Value(a))]
			}
			return &a[it.indexInt(idx, ityp, len(a))]
		case NumArray:
			esz := sizeof(arrT.Elem())
			n := int(arrT.Len())
			if t, ok := idx.(*term.Term); ok && n <= it.MaxIteLen {
				_, w := basicInfo(ityp)
				if !it.branch(it.ts.Ult(t, it.ts.BV(uint64(n), w))) {
					panic(it.runtimePanic(fmt.Sprintf("index out of range [symbolic] with length %d", n)))
				}
				return symBytePtr{NumSlice{buf: a.buf, off: 0, len: n, cap: n, esz: esz}, t}
			}
			return BytePtr{a.buf, it.indexInt(idx, ityp, n) * esz}
		}
		panic(fmt.Sprintf("IndexAddr: pointer to %T", *s))
	case BytePtr:
		arrT := instr.X.Type().Underlying().(*types.Pointer).Elem().Underlying().(*types.Array)
		esz := sizeof(arrT.Elem())
		n := int(arrT.Len())
		return BytePtr{s.buf, s.off + it.indexInt(idx, ityp, n)*esz}
	case nil:
		panic(it.runtimePanic("index of nil slice"))
	}
	panic(fmt.Sprintf("IndexAddr on %T", x))
}

// symBytePtr is a pointer to s[idx] with a symbolic, in-range idx.
type symBytePtr struct {
	s   NumSlice
	idx *term.Term
}

func (it *Interp) visitIndex(fr *frame, instr *ssa.Index) Value {
	x := fr.get(instr.X)
	idx, ityp := it.normIdx(fr.get(instr.Index), instr.Index.Type())
	switch a := x.(type) {
	case Array:
		return copyVal(a[it.indexInt(idx, ityp, len(a))])
	case NumArray:
		arrT := instr.X.Type().Underlying().(*types.Array)
		esz := sizeof(arrT.Elem())
		n := int(arrT.Len())
		if t, ok := idx.(*term.Term); ok && n <= it.MaxIteLen {
			_, w := basicInfo(ityp)
			if !it.branch(it.ts.Ult(t, it.ts.BV(uint64(n), w))) {
				panic(it.runtimePanic("index out of range"))
			}
			return it.loadSymIdx(NumSlice{buf: a.buf, len: n, cap: n, esz: esz}, t, arrT.Elem())
		}
		return it.loadNum(a.buf, it.indexInt(idx, ityp, n)*esz, arrT.Elem())
	case string, SymStr:
		n := strLen(a)
		if t, ok := idx.(*term.Term); ok && n <= it.MaxIteLen {
			_, w := basicInfo(ityp)
			if !it.branch(it.ts.Ult(t, it.ts.BV(uint64(n), w))) {
				panic(it.runtimePanic("index out of range"))
			}
			b, o, _ := strToBuf(a)
			return it.loadSymIdx(NumSlice{buf: b, off: o, len: n, cap: n, esz: 1}, t, types.Typ[types.Uint8])
		}
		return it.strByte(a, it.indexInt(idx, ityp, n))
	}
	// generic type-parameter typed operands etc.
	panic(unsupported(fmt.Sprintf("Index on %T", x)))
}

// loadSymIdx reads s[idx] for symbolic idx as an ite over all cells; cells holding the same concrete
// value are grouped (lookup tables have few distinct values).
func (it *Interp) loadSymIdx(s NumSlice, idx *term.Term, elem types.Type) Value {
	if _, ok := elem.Underlying().(*types.Array); ok {
		i := int(it.concretize(idx, "index of array element"))
		return it.loadNum(s.buf, s.off+i*s.esz, elem)
	}
	type group struct {
		v    *term.Term
		idxs []int
	}
	var groups []*group
	byVal := map[*term.Term]*group{}
	for i := 0; i < s.len; i++ {
		v := it.toTerm(it.loadNum(s.buf, s.off+i*s.esz, elem), elem)
		g := byVal[v]
		if g == nil {
			g = &group{v: v}
			byVal[v] = g
			groups = append(groups, g)
		}
		g.idxs = append(g.idxs, i)
	}
	// the largest group is the default
	def := 0
	for k, g := range groups {
		if len(g.idxs) > len(groups[def].idxs) {
			def = k
		}
	}
	r := groups[def].v
	for k, g := range groups {
		if k == def {
			continue
		}
		c := it.ts.False
		// contiguous runs become range tests
		for a := 0; a < len(g.idxs); {
			b := a
			for b+1 < len(g.idxs) && g.idxs[b+1] == g.idxs[b]+1 {
				b++
			}
			var rc *term.Term
			if b-a >= 2 {
				rc = it.ts.And(it.ts.Ule(it.ts.BV(uint64(g.idxs[a]), idx.W), idx), it.ts.Ule(idx, it.ts.BV(uint64(g.idxs[b]), idx.W)))
			} else {
				rc = it.ts.False
				for j := a; j <= b; j++ {
					rc = it.ts.Or(rc, it.ts.Eq(idx, it.ts.BV(uint64(g.idxs[j]), idx.W)))
				}
			}
			c = it.ts.Or(c, rc)
			a = b + 1
		}
		r = it.ts.Ite(c, g.v, r)
	}
	return it.fromTerm(r, elem)
}

// storeSymIdx writes s[idx]=v for symbolic idx as conditional updates of all cells.
func (it *Interp) storeSymIdx(s NumSlice, idx *term.Term, elem types.Type, v Value) {
	if _, ok := elem.Underlying().(*types.Array); ok {
		i := int(it.concretize(idx, "index of array element"))
		it.storeNum(s.buf, s.off+i*s.esz, elem, v)
		return
	}
	nv := it.toTerm(v, elem)
	for i := 0; i < s.len; i++ {
		old := it.toTerm(it.loadNum(s.buf, s.off+i*s.esz, elem), elem)
		c := it.ts.Eq(idx, it.ts.BV(uint64(i), idx.W))
		var nt *term.Term
		if old.W == 0 {
			nt = it.ts.Ite(c, nv, old)
		} else {
			nt = it.ts.Ite(c, nv, old)
		}
		it.storeNum(s.buf, s.off+i*s.esz, elem, it.fromTerm(nt, elem))
	}
}

func (it *Interp) visitLookup(fr *frame, instr *ssa.Lookup) Value {
	x := fr.get(instr.X)
	idx, ityp := it.normIdx(fr.get(instr.Index), instr.Index.Type())
	switch m := x.(type) {
	case string, SymStr:
		n := strLen(m)
		if t, ok := idx.(*term.Term); ok && n <= it.MaxIteLen {
			_, w := basicInfo(ityp)
			if !it.branch(it.ts.Ult(t, it.ts.BV(uint64(n), w))) {
				panic(it.runtimePanic("index out of range"))
			}
			b, o, _ := strToBuf(m)
			return it.loadSymIdx(NumSlice{buf: b, off: o, len: n, cap: n, esz: 1}, t, types.Typ[types.Uint8])
		}
		return it.strByte(m, it.indexInt(idx, ityp, n))
	case *MapObj:
		mt := instr.X.Type().Underlying().(*types.Map)
		var v Value
		ok := false
		if m != nil {
			if i := it.mapFind(m, mt.Key(), idx); i >= 0 {
				v = copyVal(m.vals[i])
				ok = true
			}
		}
		if !ok {
			v = it.zero(mt.Elem())
		}
		if instr.CommaOk {
			return Tuple{v, ok}
		}
		return v
	case poison:
		panic(unsupported("lookup in value from unsupported initialiser: " + m.why))
	}
	panic(fmt.Sprintf("Lookup on %T", x))
}

// mapFind returns the entry index of key or -1. Symbolic keys fork over the candidates.
func (it *Interp) mapFind(m *MapObj, kt types.Type, key Value) int {
	hk, hashed := hashKey(key)
	if hashed && !m.hasSymK {
		if i, ok := m.idx[hk]; ok {
			return i
		}
		return -1
	}
	if hashed {
		if i, ok := m.idx[hk]; ok {
			return i
		}
	}
	for i, l := range m.live {
		if !l {
			continue
		}
		if hashed {
			if _, khashed := hashKey(m.keys[i]); khashed {
				continue // concrete vs concrete: already decided by idx
			}
		}
		eq := it.equals(kt, key, m.keys[i])
		switch e := eq.(type) {
		case bool:
			if e {
				return i
			}
		case *term.Term:
			if it.branch(e) {
				return i
			}
		}
	}
	return -1
}

func (it *Interp) mapUpdate(m *MapObj, kt types.Type, key, val Value) {
	if i := it.mapFind(m, kt, key); i >= 0 {
		m.vals[i] = copyVal(val)
		return
	}
	hk, hashed := hashKey(key)
	m.insert(copyVal(key), hk, hashed, copyVal(val))
}

func (it *Interp) mapDelete(m *MapObj, kt types.Type, key Value) {
	if m == nil {
		return
	}
	if i := it.mapFind(m, kt, key); i >= 0 {
		m.remove(i)
	}
}

func (it *Interp) rangeIter(x Value, t types.Type) *RangeIter {
	switch v := x.(type) {
	case *MapObj:
		if v == nil {
			return &RangeIter{m: newMap()}
		}
		return &RangeIter{m: v, keys: v.liveIdx()}
	case string, SymStr:
		return &RangeIter{s: v}
	case poison:
		panic(unsupported("range over value from unsupported initialiser: " + v.why))
	}
	panic(fmt.Sprintf("range over %T", x))
}

func (it *Interp) next(ri *RangeIter, instr *ssa.Next) Value {
	if instr.IsString {
		n := strLen(ri.s)
		if ri.i >= n {
			return Tuple{false, uint64(0), uint64(0)}
		}
		r, sz := it.nextRune(ri.s, ri.i)
		i := ri.i
		ri.i += sz
		return Tuple{true, uint64(i), r}
	}
	if it.MapOrderNondet && ri.pos < len(ri.keys) {
		// choose which remaining live key comes next
		var cand []int
		for k := ri.pos; k < len(ri.keys); k++ {
			if ri.m.live[ri.keys[k]] {
				cand = append(cand, k)
			}
		}
		if len(cand) > 1 {
			c := it.choose("maporder", len(cand))
			k := cand[c]
			ri.keys[ri.pos], ri.keys[k] = ri.keys[k], ri.keys[ri.pos]
		}
	}
	for ri.pos < len(ri.keys) {
		i := ri.keys[ri.pos]
		ri.pos++
		if ri.m.live[i] {
			return Tuple{true, copyVal(ri.m.keys[i]), copyVal(ri.m.vals[i])}
		}
	}
	return Tuple{false, nil, nil}
}

func (it *Interp) typeAssert(instr *ssa.TypeAssert, x Value) Value {
	itf, ok := x.(Iface)
	if !ok {
		if p, isP := x.(poison); isP {
			panic(unsupported("type assertion on value from unsupported initialiser: " + p.why))
		}
		panic(fmt.Sprintf("typeAssert on %T", x))
	}
	var v Value
	err := ""
	if idst, ok := instr.AssertedType.Underlying().(*types.Interface); ok {
		v = itf
		if itf.t == nil {
			err = "interface conversion: interface is nil, not " + instr.AssertedType.String()
		} else if !it.implements(itf.t, idst) {
			err = fmt.Sprintf("interface conversion: %s is not %s", itf.t, instr.AssertedType)
		}
	} else {
		v = itf.v
		if itf.t == nil {
			err = "interface conversion: interface is nil, not " + instr.AssertedType.String()
		} else if !types.Identical(itf.t, instr.AssertedType) {
			err = fmt.Sprintf("interface conversion: interface is %s, not %s", itf.t, instr.AssertedType)
		}
	}
	if err != "" {
		if !instr.CommaOk {
			panic(it.runtimePanic(err))
		}
		return Tuple{it.zero(instr.AssertedType), false}
	}
	if instr.CommaOk {
		return Tuple{v, true}
	}
	return v
}

type implKey struct {
	t types.Type
	i *types.Interface
}

func (it *Interp) implements(t types.Type, i *types.Interface) bool {
	k := implKey{t, i}
	if r, ok := it.implCache[k]; ok {
		return r
	}
	r := types.Implements(t, i)
	it.implCache[k] = r
	return r
}

// ---------- panics ----------

func (it *Interp) runtimePanic(msg string) *goPanic {
	if it.rtErrType != nil {
		return &goPanic{v: Iface{t: it.rtErrType, v: msg}, stack: it.stackString()}
	}
	return &goPanic{v: runtimeError{msg}, stack: it.stackString()}
}

// runtimeError is the dynamic value of runtime panics; it implements error via an intrinsic.
type runtimeError struct{ msg string }

func (it *Interp) stackString() string {
	var sb strings.Builder
	n := 0
	for i := len(it.stack) - 1; i >= 0 && n < 12; i-- {
		fr := it.stack[i]
		pos := ""
		if fr.curInstr != nil {
			p := it.prog.Fset.Position(fr.curInstr.Pos())
			if p.IsValid() {
				pos = fmt.Sprintf(" %s:%d", p.Filename, p.Line)
			}
		}
		fmt.Fprintf(&sb, "  %s%s\n", fr.fn, pos)
		n++
	}
	return sb.String()
}

func (it *Interp) panicString(p *goPanic) string {
	switch v := p.v.(type) {
	case runtimeError:
		return "runtime error: " + v.msg
	case Iface:
		switch x := v.v.(type) {
		case string:
			return x
		case runtimeError:
			return "runtime error: " + x.msg
		}
		if v.t != nil && v.t == it.rtErrType {
			if ms, ok := v.v.(string); ok {
				return "runtime error: " + ms
			}
		}
		if v.t != nil {
			if s, ok := it.tryErrorString(v); ok {
				return s
			}
			return fmt.Sprintf("panic(%s)", v.t)
		}
		return "panic(nil)"
	}
	return fmt.Sprintf("panic(%T)", p.v)
}

func (it *Interp) tryErrorString(v Iface) (s string, ok bool) {
	defer func() {
		if r := recover(); r != nil {
			ok = false
		}
	}()
	ms := it.prog.MethodSets.MethodSet(v.t)
	sel := ms.Lookup(nil, "Error")
	if sel == nil {
		return "", false
	}
	fn := it.prog.MethodValue(sel)
	if fn == nil {
		return "", false
	}
	r := it.call(fn, []Value{v.v}, nil)
	if str, isStr := r.(string); isStr {
		return str, true
	}
	return "", false
}

func defaultSkipInit(path string) bool {
	switch path {
	case "runtime", "os", "syscall", "net", "os/signal", "os/exec", "os/user", "internal/cpu", "internal/godebug", "internal/poll",
		"crypto/rand", "crypto/tls", "crypto/x509", "net/http", "log", "flag", "testing", "expvar", "runtime/pprof", "runtime/trace",
		"runtime/debug", "runtime/metrics", "plugin", "reflect", "internal/reflectlite", "unsafe", "internal/abi":
		return true
	}
	for _, p := range []string{"runtime/", "internal/runtime/", "internal/syscall/", "vendor/", "crypto/internal/", "golang.org/x/sys/", "golang.org/x/net/", "google.golang.org/", "go.opentelemetry.io/"} {
		if len(path) >= len(p) && path[:len(p)] == p {
			return true
		}
	}
	return false
}

// visitInit executes one instruction of a package initialiser; engine-level failures poison the
// instruction's result instead of abandoning the rest of the initialiser.
func (it *Interp) visitInit(fr *frame, instr ssa.Instruction) (k continuation) {
	depth, ns := it.depth, len(it.stack)
	defer func() {
		if r := recover(); r != nil {
			var why string
			switch e := r.(type) {
			case unsupportedErr:
				why = e.msg
			case string:
				why = "engine: " + e
			case error:
				why = "engine: " + e.Error()
			default:
				panic(r)
			}
			it.depth, it.stack = depth, it.stack[:ns]
			switch instr.(type) {
			case *ssa.If, *ssa.Jump, *ssa.Return, *ssa.Panic:
				panic(unsupported("control flow on poisoned value in initialiser: " + why))
			}
			if v, ok := instr.(ssa.Value); ok {
				fr.env[v] = poison{why}
			}
			k = kNext
		}
	}()
	return it.visit(fr, instr)
}

// onlyLoaded reports whether the address computed by instr is only ever dereferenced for reading.
func onlyLoaded(instr *ssa.IndexAddr) bool {
	refs := instr.Referrers()
	if refs == nil {
		return false
	}
	for _, r := range *refs {
		u, ok := r.(*ssa.UnOp)
		if !ok || u.Op != token.MUL {
			if _, isDbg := r.(*ssa.DebugRef); isDbg {
				continue
			}
			return false
		}
	}
	return true
}

// indexByClass resolves a symbolic index into a table of boxed values for a read: indices whose cells
// hold the same value form one class; the path forks per class (not per index) and the first index of
// the class stands for it.
func (it *Interp) indexByClass(idx *term.Term, t types.Type, cells []Value) int {
	_, w := basicInfo(t)
	n := len(cells)
	if !it.branch(it.ts.Ult(idx, it.ts.BV(uint64(n), w))) {
		panic(it.runtimePanic(fmt.Sprintf("index out of range [symbolic] with length %d", n)))
	}
	var reps []int
	var members [][]int
	for i, c := range cells {
		found := false
		for k, r := range reps {
			if sameCell(cells[r], c) {
				members[k] = append(members[k], i)
				found = true
				break
			}
		}
		if !found {
			reps = append(reps, i)
			members = append(members, []int{i})
		}
	}
	if len(reps) > 64 {
		return int(it.concretize(idx, "index"))
	}
	// smallest classes first: the big default class is what remains
	order := make([]int, len(reps))
	for i := range order {
		order[i] = i
	}
	sort.Slice(order, func(a, b int) bool { return len(members[order[a]]) < len(members[order[b]]) })
	for oi, k := range order {
		if oi == len(order)-1 {
			return reps[k]
		}
		c := it.ts.False
		for _, i := range members[k] {
			c = it.ts.Or(c, it.ts.Eq(idx, it.ts.BV(uint64(i), w)))
		}
		if it.branch(c) {
			return reps[k]
		}
	}
	return reps[order[len(order)-1]]
}

func sameCell(a, b Value) bool {
	switch x := a.(type) {
	case NumSlice:
		y, ok := b.(NumSlice)
		return ok && x == y
	case []Value:
		y, ok := b.([]Value)
		if !ok {
			return false
		}
		if len(x) == 0 && len(y) == 0 {
			return (x == nil) == (y == nil)
		}
		return len(x) == len(y) && &x[0] == &y[0]
	case bool, uint64, float64, float32, string, *Value, BytePtr, nil:
		return a == b
	case Struct:
		y, ok := b.(Struct)
		if !ok || len(x) != len(y) {
			return false
		}
		for i := range x {
			if !sameCell(x[i], y[i]) {
				return false
			}
		}
		return true
	}
	return false
}

// normIdx widens a symbolic index of a narrow integer type to 64 bits (sign- or zero-extended) so
// that bounds tests against the length never truncate the length.
func (it *Interp) normIdx(idx Value, t types.Type) (Value, types.Type) {
	tm, ok := idx.(*term.Term)
	if !ok {
		return idx, t
	}
	k, w := basicInfo(t)
	if w == 64 || w == 0 {
		return idx, t
	}
	if k == kInt {
		return it.ts.Sext(tm, 64), types.Typ[types.Int]
	}
	return it.ts.Zext(tm, 64), types.Typ[types.Uint64]
}

func (it *Interp) addInitIssue(msg string) {
	for _, m := range it.initIssues {
		if m == msg {
			return
		}
	}
	it.initIssues = append(it.initIssues, msg)
}
