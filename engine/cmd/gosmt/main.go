// gosmt: bounded symbolic execution of Go functions (harnesses) via go/ssa and an SMT solver.
package main

import (
	"encoding/json"
	"flag"
	"fmt"
	"go/ast"
	"os"
	"path/filepath"
	"regexp"
	"runtime"
	"runtime/debug"
	"strings"
	"time"

	"golang.org/x/tools/go/packages"
	"golang.org/x/tools/go/ssa"
	"golang.org/x/tools/go/ssa/ssautil"

	"gosmt/interp"
)

type output struct {
	Package  string           `json:"package"`
	LoadS    float64          `json:"load_s"`
	BuildS   float64          `json:"build_s"`
	Results  []*interp.Result `json:"results"`
	Error    string           `json:"error,omitempty"`
	Packages int              `json:"packages_loaded"`
}

func main() {
	var (
		dir       = flag.String("dir", "/repo", "module root")
		pkgPat    = flag.String("pkg", "", "package pattern relative to dir, e.g. ./lib/encoding")
		harness   = flag.String("harness", "", "comma-separated harness .go files to overlay into the package directory")
		rtDir     = flag.String("rt", "", "directory holding the verifrt package sources (overlaid at <dir>/lib/verifrt)")
		entries   = flag.String("entry", "", "comma-separated harness entry function names")
		out       = flag.String("out", "", "result JSON file (default stdout)")
		workers   = flag.Int("workers", runtime.NumCPU(), "parallel workers")
		timeoutMs = flag.Int("timeout-ms", 20000, "per-query solver timeout")
		maxSteps  = flag.Int64("max-steps", 20000000, "instruction budget per path")
		maxDepth  = flag.Int("max-depth", 400, "call depth budget")
		maxAlloc  = flag.Int("max-alloc", 1<<26, "largest make() in elements")
		maxPaths  = flag.Int("max-paths", 0, "path budget (0 = none)")
		maxFail   = flag.Int("max-failures", 0, "stop after this many failures (0 = explore all)")
		deadline  = flag.Int("deadline-s", 0, "wall-clock budget per entry in seconds (0 = none)")
		solver    = flag.String("solver", "z3", "primary solver: z3 | z3-new | cvc5 | cvc5-int")
		alt       = flag.String("alt", "", "alternate solver for arithmetic-heavy queries, e.g. cvc5-int")
		tags      = flag.String("tags", "verif,purego", "build tags")
		verbose   = flag.Bool("v", false, "verbose")
		slog      = flag.String("solver-log", "", "write SMT-LIB traffic of worker 0 here")
		concrete  = flag.String("concrete", "", "JSON file with inputs: run one concrete path (co-simulation / replay in the engine)")
		oneShotMs = flag.Int("oneshot-ms", 60000, "timeout of the non-incremental portfolio tried after an incremental unknown (0 = off)")
		oneShot   = flag.String("oneshot", "z3,z3-new,cvc5", "solvers of the non-incremental portfolio")
		dumpDir   = flag.String("dump", "", "directory for standalone SMT-LIB dumps of portfolio queries")
		noWitness = flag.Bool("no-witness", false, "disable model-witness shortcut for branch feasibility")
		maxDec    = flag.Int("max-decisions", 0, "symbolic decisions allowed on one path (0 = default 100000)")
		lazyFP    = flag.Bool("lazy-fp", false, "fork on floating-point branch conditions without a feasibility query; check each completed path once")
		progress  = flag.Int("progress", 30, "seconds between progress lines (0 = none)")
		tier      = flag.Int("tier", 0, "0 quick, 1 thorough (verifrt.Tier)")
		mapOrder  = flag.Bool("maporder", false, "explore map iteration orders")
		altMs     = flag.Int("alt-ms", 1000, "per-query timeout of the incremental session of the alternate solver")
		gcPct     = flag.Int("gc-percent", 200, "GOGC of the engine process")
		noSlice   = flag.Bool("no-slice", false, "send the whole path condition with hard queries")
		keepGlob  = flag.Bool("keep-globals", false, "do not reset package-level state between paths")
		noAltSess = flag.Bool("no-alt-session", false, "hard-arithmetic queries go straight to the one-shot portfolio")
	)
	flag.Parse()
	debug.SetGCPercent(*gcPct)
	o := &output{Package: *pkgPat}
	var cleanup func()
	emit := func() {
		b, _ := json.MarshalIndent(o, "", " ")
		if *out == "" {
			os.Stdout.Write(b)
			os.Stdout.WriteString("\n")
		} else {
			os.WriteFile(*out, b, 0o644)
		}
	}
	fail := func(msg string) {
		o.Error = msg
		emit()
		if cleanup != nil {
			cleanup()
		}
		fmt.Fprintln(os.Stderr, "gosmt:", msg)
		os.Exit(2)
	}

	// the repository needs the go1.25 toolchain; it lives in the module cache of this image
	if tc := "/root/go/pkg/mod/golang.org/toolchain@v0.0.1-go1.25.0.linux-amd64/bin"; dirExists(tc) {
		os.Setenv("PATH", tc+":"+os.Getenv("PATH"))
	}
	absDir, _ := filepath.Abs(*dir)
	overlay := map[string][]byte{}
	pkgDir := filepath.Join(absDir, *pkgPat)
	stubDirectives := map[string]string{}
	skipInit := map[string]bool{}
	reStub := regexp.MustCompile(`(?m)^//verif:stub\s+(\S+)\s*=\s*(\S+)`)
	reSkip := regexp.MustCompile(`(?m)^//verif:skipinit\s+(\S+)`)
	for _, h := range strings.Split(*harness, ",") {
		if h == "" {
			continue
		}
		b, err := os.ReadFile(h)
		if err != nil {
			fail(err.Error())
		}
		overlay[filepath.Join(pkgDir, "zz_verif_"+filepath.Base(h))] = b
		for _, m := range reStub.FindAllStringSubmatch(string(b), -1) {
			stubDirectives[m[1]] = m[2]
		}
		for _, m := range reSkip.FindAllStringSubmatch(string(b), -1) {
			skipInit[m[1]] = true
		}
	}
	if *rtDir != "" {
		fs, _ := filepath.Glob(filepath.Join(*rtDir, "*.go"))
		for _, f := range fs {
			if strings.HasSuffix(f, "_test.go") {
				continue
			}
			b, err := os.ReadFile(f)
			if err != nil {
				fail(err.Error())
			}
			overlay[filepath.Join(absDir, "lib", "verifrt", filepath.Base(f))] = b
		}
	}
	// never let the go command rewrite /repo/go.mod or go.sum: work on a scratch copy
	modDir, err := os.MkdirTemp("", "gosmt-mod-")
	if err != nil {
		fail(err.Error())
	}
	defer os.RemoveAll(modDir)
	cleanup = func() { os.RemoveAll(modDir) }
	for _, f := range []string{"go.mod", "go.sum"} {
		b, err := os.ReadFile(filepath.Join(absDir, f))
		if err != nil {
			fail(err.Error())
		}
		os.WriteFile(filepath.Join(modDir, f), b, 0o644)
	}
	t0 := time.Now()
	cfg := &packages.Config{
		Mode:       packages.LoadAllSyntax,
		Dir:        absDir,
		Overlay:    overlay,
		BuildFlags: []string{"-tags=" + *tags, "-modfile=" + filepath.Join(modDir, "go.mod")},
		Env:        append(os.Environ(), "GOFLAGS=-mod=mod", "GOPROXY=off", "GOTOOLCHAIN=local"),
	}
	pkgs, err := packages.Load(cfg, *pkgPat)
	if err != nil {
		fail("load: " + err.Error())
	}
	nerr := 0
	packages.Visit(pkgs, nil, func(p *packages.Package) {
		o.Packages++
		for _, e := range p.Errors {
			if nerr < 10 {
				fmt.Fprintln(os.Stderr, "load error:", e)
			}
			nerr++
		}
	})
	if nerr > 0 {
		fail(fmt.Sprintf("%d package load errors", nerr))
	}
	o.LoadS = time.Since(t0).Seconds()
	t1 := time.Now()
	prog, spkgs := ssautil.AllPackages(pkgs, ssa.InstantiateGenerics)
	prog.Build()
	o.BuildS = time.Since(t1).Seconds()
	var main *ssa.Package
	for i, p := range pkgs {
		if spkgs[i] != nil && p.PkgPath != "" {
			main = spkgs[i]
		}
	}
	if main == nil {
		fail("no SSA package")
	}
	_ = ast.Print
	// resolve stubs
	stubs := map[string]*ssa.Function{}
	for target, hf := range stubDirectives {
		f := main.Func(hf)
		if f == nil {
			fail("stub function " + hf + " not found in " + main.Pkg.Path())
		}
		stubs[target] = f
	}
	var conc []interp.InputRec
	if *concrete != "" {
		b, err := os.ReadFile(*concrete)
		if err != nil {
			fail(err.Error())
		}
		var rf struct {
			Inputs []interp.InputRec `json:"inputs"`
		}
		if err := json.Unmarshal(b, &rf); err != nil {
			fail(err.Error())
		}
		conc = rf.Inputs
		if conc == nil {
			conc = []interp.InputRec{}
		}
	}
	for _, e := range strings.Split(*entries, ",") {
		if e == "" {
			continue
		}
		fn := main.Func(e)
		if fn == nil {
			fail("entry " + e + " not found in " + main.Pkg.Path())
		}
		c := &interp.Config{
			Workers: *workers, TimeoutMs: *timeoutMs, MaxSteps: *maxSteps, MaxDepth: *maxDepth, MaxAlloc: *maxAlloc,
			MaxPaths: *maxPaths, MaxFailures: *maxFail, Solver: *solver, AltSolver: *alt, Verbose: *verbose, SolverLog: *slog,
			Concrete: conc, MapOrderNondet: *mapOrder, OneShotMs: *oneShotMs, OneShotSolvers: strings.Split(*oneShot, ","), DumpDir: *dumpDir, Tier: *tier, Progress: *progress, NoWitness: *noWitness, LazyFP: *lazyFP, MaxDecisions: *maxDec, AltMs: *altMs, NoAltSession: *noAltSess, KeepGlobals: *keepGlob, NoSlice: *noSlice,
		}
		if *deadline > 0 {
			c.Deadline = time.Now().Add(time.Duration(*deadline) * time.Second)
		}
		res := interp.Explore(prog, fn, c, stubs, skipInit)
		o.Results = append(o.Results, res)
		fmt.Fprintf(os.Stderr, "gosmt: %s: paths=%d pruned=%d failures=%d unknown=%d bound=%d unsupported=%d asserts_ok=%d wall=%.1fs solver=%.1fs %s\n",
			e, res.Paths, res.Pruned, len(res.Failures), len(res.Unknowns), len(res.BoundHits), len(res.Unsupported), res.AssertsOK, res.WallS, res.SolverTimeS, res.Incomplete)
	}
	emit()
}

func dirExists(p string) bool {
	st, err := os.Stat(p)
	return err == nil && st.IsDir()
}
