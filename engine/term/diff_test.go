package term

import (
	"fmt"
	"math/rand"
	"os/exec"
	"strings"
	"testing"
)

// TestEvalAgainstZ3 checks the constant folder / evaluator / simplifier against z3 on random terms:
// for random variable values, (= term value) must be satisfiable together with the assignment.
func TestEvalAgainstZ3(t *testing.T) {
	if _, err := exec.LookPath("z3"); err != nil {
		t.Skip("z3 not found")
	}
	rnd := rand.New(rand.NewSource(7))
	s := NewStore()
	widths := []uint8{8, 16, 32, 64}
	interesting := []uint64{0, 1, 2, 3, 0x7f, 0x80, 0xff, 0x7fff, 0x8000, 0xffff, 0x7fffffff, 0x80000000, 0xffffffff, 1 << 62, 1 << 63, ^uint64(0), 3600, 1000000000, 62135596800}
	val := func() uint64 {
		if rnd.Intn(2) == 0 {
			return interesting[rnd.Intn(len(interesting))]
		}
		return rnd.Uint64()
	}
	var gen func(w uint8, d int, vars []*Term) *Term
	genBool := func(d int, vars []*Term) *Term { return nil }
	gen = func(w uint8, d int, vars []*Term) *Term {
		if d == 0 || rnd.Intn(5) == 0 {
			if rnd.Intn(3) == 0 {
				return s.BV(val(), w)
			}
			v := vars[rnd.Intn(len(vars))]
			return s.Resize(v, w, rnd.Intn(2) == 0)
		}
		a, b := gen(w, d-1, vars), gen(w, d-1, vars)
		switch rnd.Intn(22) {
		case 0:
			return s.Add(a, b)
		case 1:
			return s.Sub(a, b)
		case 2:
			return s.Mul(a, b)
		case 3:
			return s.UDiv(a, b)
		case 4:
			return s.URem(a, b)
		case 5:
			return s.SDiv(a, b)
		case 6:
			return s.SRem(a, b)
		case 7:
			return s.BvAnd(a, b)
		case 8:
			return s.BvOr(a, b)
		case 9:
			return s.BvXor(a, b)
		case 10:
			return s.BvNot(a)
		case 11:
			return s.Neg(a)
		case 12:
			return s.Shl(a, s.BV(uint64(rnd.Intn(int(w)+2)), w))
		case 13:
			return s.Lshr(a, s.BV(uint64(rnd.Intn(int(w)+2)), w))
		case 14:
			return s.Ashr(a, s.BV(uint64(rnd.Intn(int(w)+2)), w))
		case 15:
			return s.Shl(a, b)
		case 16:
			return s.Lshr(a, b)
		case 17:
			return s.Ashr(a, b)
		case 18:
			if w >= 16 {
				h := w / 2
				return s.Concat(s.Extract(a, w-1, h), s.Extract(b, h-1, 0))
			}
			return a
		case 19:
			return s.Ite(genBool(d-1, vars), a, b)
		case 20:
			if w > 8 {
				return s.Sext(s.Extract(a, w/2-1, 0), w)
			}
			return a
		default:
			if w > 8 {
				return s.Zext(s.Extract(a, w-2, 1), w)
			}
			return a
		}
	}
	genBool = func(d int, vars []*Term) *Term {
		w := widths[rnd.Intn(len(widths))]
		a, b := gen(w, d, vars), gen(w, d, vars)
		switch rnd.Intn(8) {
		case 0:
			return s.Eq(a, b)
		case 1:
			return s.Ult(a, b)
		case 2:
			return s.Ule(a, b)
		case 3:
			return s.Slt(a, b)
		case 4:
			return s.Sle(a, b)
		case 5:
			return s.Not(s.Eq(a, b))
		case 6:
			return s.And(s.Ult(a, b), s.Slt(b, a))
		default:
			return s.Or(s.Ule(a, b), s.Eq(a, s.BV(val(), w)))
		}
	}
	vars := []*Term{s.Var("x", 64), s.Var("y", 32), s.Var("z", 8)}
	var sb strings.Builder
	pr := NewPrinter("z3")
	n := 1500
	type cs struct {
		t   *Term
		env map[string]uint64
		v   uint64
	}
	var cases []cs
	for i := 0; i < n; i++ {
		var tm *Term
		if rnd.Intn(3) == 0 {
			tm = genBool(3, vars)
		} else {
			tm = gen(widths[rnd.Intn(len(widths))], 3, vars)
		}
		env := map[string]uint64{"x": val(), "y": val() & 0xffffffff, "z": val() & 0xff}
		v := s.Eval(tm, env, map[*Term]uint64{})
		cases = append(cases, cs{tm, env, v})
		sb.WriteString("(push 1)\n")
		pr.Level = 1
		ref := pr.Define(&sb, tm)
		for _, vt := range vars {
			r := pr.Define(&sb, vt)
			fmt.Fprintf(&sb, "(assert (= %s (_ bv%d %d)))\n", r, env[vt.Name], vt.W)
		}
		if tm.W == 0 {
			if v != 0 {
				fmt.Fprintf(&sb, "(assert (not %s))\n", ref)
			} else {
				fmt.Fprintf(&sb, "(assert %s)\n", ref)
			}
		} else {
			fmt.Fprintf(&sb, "(assert (not (= %s (_ bv%d %d))))\n", ref, v, tm.W)
		}
		sb.WriteString("(check-sat)\n(pop 1)\n")
		pr.PopTo(0)
	}
	cmd := exec.Command("z3", "-in")
	cmd.Stdin = strings.NewReader(sb.String())
	out, err := cmd.CombinedOutput()
	if err != nil {
		t.Fatalf("z3: %v\n%s", err, out[:min(len(out), 2000)])
	}
	lines := strings.Fields(string(out))
	if len(lines) != n {
		t.Fatalf("expected %d answers, got %d: %s", n, len(lines), string(out)[:min(len(out), 1000)])
	}
	bad := 0
	for i, l := range lines {
		if l != "unsat" {
			bad++
			if bad < 6 {
				t.Errorf("case %d: evaluator and z3 disagree (%s): term %s env %v eval=%#x", i, l, cases[i].t, cases[i].env, cases[i].v)
			}
		}
	}
	if bad > 0 {
		t.Errorf("%d of %d disagree", bad, n)
	}
}
