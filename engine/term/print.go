package term

import (
	"fmt"
	"strings"
)

// Printer emits SMT-LIB2 definitions for terms. It tracks which term nodes already have a
// (define-fun) in the solver and at which assertion-stack level, so that push/pop can be mirrored.
type Printer struct {
	defined  map[uint32]int // term id -> level at which defined
	declared map[string]int // var/uf name -> level
	Level    int
	// Dialect: "z3" (fp.to_ieee_bv available) or "std" (fresh variable encoding)
	Dialect string
	fresh   int
}

func NewPrinter(dialect string) *Printer {
	return &Printer{defined: map[uint32]int{}, declared: map[string]int{}, Dialect: dialect}
}

func (p *Printer) Reset() {
	p.defined = map[uint32]int{}
	p.declared = map[string]int{}
	p.Level = 0
}

// PopTo forgets definitions made at levels > lvl.
func (p *Printer) PopTo(lvl int) {
	for k, l := range p.defined {
		if l > lvl {
			delete(p.defined, k)
		}
	}
	for k, l := range p.declared {
		if l > lvl {
			delete(p.declared, k)
		}
	}
	p.Level = lvl
}

func sortOf(w uint8) string {
	if w == 0 {
		return "Bool"
	}
	return fmt.Sprintf("(_ BitVec %d)", w)
}

func quote(name string) string {
	return "|" + strings.NewReplacer("|", "_", "\\", "_").Replace(name) + "|"
}

func fpSort(w uint8) (int, int) {
	if w == 32 {
		return 8, 24
	}
	return 11, 53
}

func (p *Printer) ref(t *Term) string {
	switch t.Op {
	case OpConst:
		if t.W == 0 {
			if t.C != 0 {
				return "true"
			}
			return "false"
		}
		return fmt.Sprintf("(_ bv%d %d)", t.C, t.W)
	case OpVar:
		return quote(t.Name)
	}
	return fmt.Sprintf("t%d", t.ID)
}

func (p *Printer) fp(t *Term) string {
	e, s := fpSort(t.W)
	return fmt.Sprintf("((_ to_fp %d %d) %s)", e, s, p.ref(t))
}

// Define writes to sb every declaration/definition needed so that p.ref(t) is meaningful, and
// returns the reference string.
func (p *Printer) Define(sb *strings.Builder, t *Term) string {
	p.define(sb, t)
	return p.ref(t)
}

func (p *Printer) define(sb *strings.Builder, t *Term) {
	// iterative post-order to avoid deep recursion
	type item struct {
		t    *Term
		done bool
	}
	stack := []item{{t, false}}
	for len(stack) > 0 {
		it := stack[len(stack)-1]
		stack = stack[:len(stack)-1]
		u := it.t
		switch u.Op {
		case OpConst:
			continue
		case OpVar:
			if _, ok := p.declared[u.Name]; !ok {
				fmt.Fprintf(sb, "(declare-const %s %s)\n", quote(u.Name), sortOf(u.W))
				p.declared[u.Name] = p.Level
			}
			continue
		}
		if _, ok := p.defined[u.ID]; ok {
			continue
		}
		if !it.done {
			stack = append(stack, item{u, true})
			for _, a := range u.A {
				stack = append(stack, item{a, false})
			}
			continue
		}
		p.emit(sb, u)
		p.defined[u.ID] = p.Level
	}
}

func (p *Printer) emit(sb *strings.Builder, t *Term) {
	a := func(i int) string { return p.ref(t.A[i]) }
	fa := func(i int) string { return p.fp(t.A[i]) }
	var body string
	bin := func(name string) string { return fmt.Sprintf("(%s %s %s)", name, a(0), a(1)) }
	tobits := func(fpexpr string, w uint8) string {
		if p.Dialect == "z3" {
			return "(fp.to_ieee_bv " + fpexpr + ")"
		}
		// fresh variable r with to_fp(r) = fpexpr, asserted as a side condition
		p.fresh++
		name := fmt.Sprintf("|fpbits!%d!%d|", t.ID, p.fresh)
		e, s := fpSort(w)
		fmt.Fprintf(sb, "(declare-const %s %s)\n(assert (= ((_ to_fp %d %d) %s) %s))\n", name, sortOf(w), e, s, name, fpexpr)
		return name
	}
	switch t.Op {
	case OpNot:
		body = fmt.Sprintf("(not %s)", a(0))
	case OpAnd:
		body = bin("and")
	case OpOr:
		body = bin("or")
	case OpIte:
		body = fmt.Sprintf("(ite %s %s %s)", a(0), a(1), a(2))
	case OpEq:
		body = bin("=")
	case OpBvAdd:
		body = bin("bvadd")
	case OpBvSub:
		body = bin("bvsub")
	case OpBvMul:
		body = bin("bvmul")
	case OpBvUDiv:
		body = bin("bvudiv")
	case OpBvURem:
		body = bin("bvurem")
	case OpBvSDiv:
		body = bin("bvsdiv")
	case OpBvSRem:
		body = bin("bvsrem")
	case OpBvAnd:
		body = bin("bvand")
	case OpBvOr:
		body = bin("bvor")
	case OpBvXor:
		body = bin("bvxor")
	case OpBvNot:
		body = fmt.Sprintf("(bvnot %s)", a(0))
	case OpBvNeg:
		body = fmt.Sprintf("(bvneg %s)", a(0))
	case OpBvShl:
		body = bin("bvshl")
	case OpBvLshr:
		body = bin("bvlshr")
	case OpBvAshr:
		body = bin("bvashr")
	case OpBvUlt:
		body = bin("bvult")
	case OpBvUle:
		body = bin("bvule")
	case OpBvSlt:
		body = bin("bvslt")
	case OpBvSle:
		body = bin("bvsle")
	case OpConcat:
		body = bin("concat")
	case OpExtract:
		body = fmt.Sprintf("((_ extract %d %d) %s)", t.C>>8, t.C&0xff, a(0))
	case OpZext:
		body = fmt.Sprintf("((_ zero_extend %d) %s)", t.W-t.A[0].W, a(0))
	case OpSext:
		body = fmt.Sprintf("((_ sign_extend %d) %s)", t.W-t.A[0].W, a(0))
	case OpFAdd:
		body = tobits(fmt.Sprintf("(fp.add RNE %s %s)", fa(0), fa(1)), t.W)
	case OpFSub:
		body = tobits(fmt.Sprintf("(fp.sub RNE %s %s)", fa(0), fa(1)), t.W)
	case OpFMul:
		body = tobits(fmt.Sprintf("(fp.mul RNE %s %s)", fa(0), fa(1)), t.W)
	case OpFDiv:
		body = tobits(fmt.Sprintf("(fp.div RNE %s %s)", fa(0), fa(1)), t.W)
	case OpFSqrt:
		body = tobits(fmt.Sprintf("(fp.sqrt RNE %s)", fa(0)), t.W)
	case OpFLt:
		body = fmt.Sprintf("(fp.lt %s %s)", fa(0), fa(1))
	case OpFLe:
		body = fmt.Sprintf("(fp.leq %s %s)", fa(0), fa(1))
	case OpFEq:
		body = fmt.Sprintf("(fp.eq %s %s)", fa(0), fa(1))
	case OpFIsNaN:
		body = fmt.Sprintf("(fp.isNaN %s)", fa(0))
	case OpFIsInf:
		body = fmt.Sprintf("(fp.isInfinite %s)", fa(0))
	case OpFCvt:
		e, s := fpSort(t.W)
		body = tobits(fmt.Sprintf("((_ to_fp %d %d) RNE %s)", e, s, fa(0)), t.W)
	case OpSIToF:
		e, s := fpSort(t.W)
		body = tobits(fmt.Sprintf("((_ to_fp %d %d) RNE %s)", e, s, a(0)), t.W)
	case OpUIToF:
		e, s := fpSort(t.W)
		body = tobits(fmt.Sprintf("((_ to_fp_unsigned %d %d) RNE %s)", e, s, a(0)), t.W)
	case OpFToSI:
		body = fmt.Sprintf("((_ fp.to_sbv %d) RTZ %s)", t.W, fa(0))
	case OpFToUI:
		body = fmt.Sprintf("((_ fp.to_ubv %d) RTZ %s)", t.W, fa(0))
	case OpFRound:
		rm := []string{"RTN", "RTP", "RTZ", "RNE"}[t.C]
		body = tobits(fmt.Sprintf("(fp.roundToIntegral %s %s)", rm, fa(0)), t.W)
	case OpUF:
		// declare the function once
		sig := "uf:" + t.Name
		if _, ok := p.declared[sig]; !ok {
			var as []string
			for _, x := range t.A {
				as = append(as, sortOf(x.W))
			}
			fmt.Fprintf(sb, "(declare-fun %s (%s) %s)\n", quote(t.Name), strings.Join(as, " "), sortOf(t.W))
			p.declared[sig] = p.Level
		}
		if len(t.A) == 0 {
			body = quote(t.Name)
		} else {
			var as []string
			for i := range t.A {
				as = append(as, a(i))
			}
			body = fmt.Sprintf("(%s %s)", quote(t.Name), strings.Join(as, " "))
		}
	default:
		panic(fmt.Sprintf("print: op %d", t.Op))
	}
	fmt.Fprintf(sb, "(define-fun t%d () %s %s)\n", t.ID, sortOf(t.W), body)
}

// String renders a term as a standalone expression (for diagnostics; exponential on DAGs,
// so depth-limited).
func (t *Term) String() string { return t.str(6) }

func (t *Term) str(d int) string {
	switch t.Op {
	case OpConst:
		if t.W == 0 {
			if t.C != 0 {
				return "true"
			}
			return "false"
		}
		return fmt.Sprintf("%#x:%d", t.C, t.W)
	case OpVar:
		return t.Name
	}
	if d == 0 {
		return fmt.Sprintf("t%d", t.ID)
	}
	names := map[Op]string{OpNot: "not", OpAnd: "and", OpOr: "or", OpIte: "ite", OpEq: "=", OpBvAdd: "+", OpBvSub: "-", OpBvMul: "*",
		OpBvUDiv: "/u", OpBvURem: "%u", OpBvSDiv: "/s", OpBvSRem: "%s", OpBvAnd: "&", OpBvOr: "|", OpBvXor: "^", OpBvNot: "~", OpBvNeg: "neg",
		OpBvShl: "<<", OpBvLshr: ">>u", OpBvAshr: ">>s", OpBvUlt: "<u", OpBvUle: "<=u", OpBvSlt: "<s", OpBvSle: "<=s", OpConcat: "++",
		OpZext: "zext", OpSext: "sext", OpFAdd: "f+", OpFSub: "f-", OpFMul: "f*", OpFDiv: "f/", OpFLt: "f<", OpFLe: "f<=", OpFEq: "f==",
		OpFIsNaN: "isnan", OpFIsInf: "isinf", OpFCvt: "fcvt", OpSIToF: "sitof", OpUIToF: "uitof", OpFToSI: "ftosi", OpFToUI: "ftoui",
		OpFRound: "fround", OpFSqrt: "fsqrt"}
	var sb strings.Builder
	sb.WriteByte('(')
	switch t.Op {
	case OpExtract:
		fmt.Fprintf(&sb, "ext[%d:%d]", t.C>>8, t.C&0xff)
	case OpUF:
		sb.WriteString(t.Name)
	default:
		sb.WriteString(names[t.Op])
	}
	for _, a := range t.A {
		sb.WriteByte(' ')
		sb.WriteString(a.str(d - 1))
	}
	sb.WriteByte(')')
	return sb.String()
}
