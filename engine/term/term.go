// Package term implements hash-consed SMT terms over Bool and bit-vectors (width <= 64),
// with IEEE-754 operations expressed on bit patterns, light-weight simplification and an
// SMT-LIB2 printer.
package term

import (
	"fmt"
	"math"
	"math/bits"
	"strings"
)

type Op uint8

const (
	OpConst Op = iota // BV constant (C) or Bool constant (C=0/1, W=0)
	OpVar
	OpNot // bool
	OpAnd
	OpOr
	OpIte
	OpEq
	OpBvAdd
	OpBvSub
	OpBvMul
	OpBvUDiv
	OpBvURem
	OpBvSDiv
	OpBvSRem
	OpBvAnd
	OpBvOr
	OpBvXor
	OpBvNot
	OpBvNeg
	OpBvShl
	OpBvLshr
	OpBvAshr
	OpBvUlt
	OpBvUle
	OpBvSlt
	OpBvSle
	OpConcat
	OpExtract // C = hi<<8 | lo
	OpZext    // to width W
	OpSext
	// floating point on bit patterns. W = result width (32/64) or 0 for predicates
	OpFAdd
	OpFSub
	OpFMul
	OpFDiv
	OpFNeg
	OpFLt
	OpFLe
	OpFEq
	OpFIsNaN
	OpFIsInf
	OpFCvt     // float -> float of width W (arg width differs)
	OpSIToF    // signed bv -> float bits of width W
	OpUIToF    // unsigned bv -> float bits of width W
	OpFToSI    // float bits -> signed bv of width W (RTZ); out-of-range unspecified
	OpFToUI    // float bits -> unsigned bv width W
	OpFRound   // C: 0 floor 1 ceil 2 trunc 3 nearest-even
	OpFSqrt    //
	OpFAbs     //
	OpUF       // uninterpreted function Name, result width W
)

type Term struct {
	Op   Op
	W    uint8 // 0 = Bool, else BV width
	C    uint64
	Name string
	A    []*Term
	ID   uint32
}

func (t *Term) IsConst() bool { return t.Op == OpConst }
func (t *Term) IsBool() bool  { return t.W == 0 }
func (t *Term) IsTrue() bool  { return t.Op == OpConst && t.W == 0 && t.C == 1 }
func (t *Term) IsFalse() bool { return t.Op == OpConst && t.W == 0 && t.C == 0 }

type key struct {
	op         Op
	w          uint8
	c          uint64
	name       string
	a0, a1, a2 uint32
	n          uint8
}

// Store is a hash-consing table. Not safe for concurrent use.
type Store struct {
	tab   map[key]*Term
	ntab  map[string]*Term // n-ary (UF with >3 args)
	next  uint32
	True  *Term
	False *Term
}

func NewStore() *Store {
	s := &Store{tab: map[key]*Term{}, ntab: map[string]*Term{}, next: 1}
	s.True = s.mk(OpConst, 0, 1, "")
	s.False = s.mk(OpConst, 0, 0, "")
	return s
}

func (s *Store) NumTerms() int { return int(s.next) }

// HasFloat reports whether t contains a floating-point operation; memo is the caller's cache.
func HasFloat(t *Term, memo map[*Term]bool) bool {
	if v, ok := memo[t]; ok {
		return v
	}
	r := t.Op >= OpFAdd && t.Op <= OpFAbs
	if !r {
		for _, a := range t.A {
			if HasFloat(a, memo) {
				r = true
				break
			}
		}
	}
	memo[t] = r
	return r
}

func (s *Store) mk(op Op, w uint8, c uint64, name string, args ...*Term) *Term {
	if len(args) > 3 {
		var sb strings.Builder
		fmt.Fprintf(&sb, "%d/%d/%d/%s", op, w, c, name)
		for _, a := range args {
			fmt.Fprintf(&sb, "/%d", a.ID)
		}
		ks := sb.String()
		if t, ok := s.ntab[ks]; ok {
			return t
		}
		t := &Term{Op: op, W: w, C: c, Name: name, A: append([]*Term(nil), args...), ID: s.next}
		s.next++
		s.ntab[ks] = t
		return t
	}
	k := key{op: op, w: w, c: c, name: name, n: uint8(len(args))}
	switch len(args) {
	case 3:
		k.a2 = args[2].ID
		fallthrough
	case 2:
		k.a1 = args[1].ID
		fallthrough
	case 1:
		k.a0 = args[0].ID
	}
	if t, ok := s.tab[k]; ok {
		return t
	}
	t := &Term{Op: op, W: w, C: c, Name: name, ID: s.next}
	if len(args) > 0 {
		t.A = append([]*Term(nil), args...)
	}
	s.next++
	s.tab[k] = t
	return t
}

func mask(w uint8) uint64 {
	if w >= 64 {
		return ^uint64(0)
	}
	return (uint64(1) << w) - 1
}

func sx(v uint64, w uint8) int64 { // sign-extend w-bit value
	if w >= 64 {
		return int64(v)
	}
	sh := 64 - uint(w)
	return int64(v<<sh) >> sh
}

func (s *Store) Bool(b bool) *Term {
	if b {
		return s.True
	}
	return s.False
}

func (s *Store) BV(v uint64, w uint8) *Term {
	if w == 0 {
		panic("BV width 0")
	}
	return s.mk(OpConst, w, v&mask(w), "")
}

func (s *Store) Var(name string, w uint8) *Term { return s.mk(OpVar, w, 0, name) }

func (s *Store) UF(name string, w uint8, args ...*Term) *Term {
	return s.mk(OpUF, w, 0, name, args...)
}

// ---------- Boolean ----------

func (s *Store) Not(a *Term) *Term {
	if a.W != 0 {
		panic("Not on non-bool")
	}
	if a.IsConst() {
		return s.Bool(a.C == 0)
	}
	if a.Op == OpNot {
		return a.A[0]
	}
	return s.mk(OpNot, 0, 0, "", a)
}

func (s *Store) And(a, b *Term) *Term {
	if a.IsFalse() || b.IsFalse() {
		return s.False
	}
	if a.IsTrue() {
		return b
	}
	if b.IsTrue() {
		return a
	}
	if a == b {
		return a
	}
	if s.Not(a) == b {
		return s.False
	}
	if a.ID > b.ID {
		a, b = b, a
	}
	return s.mk(OpAnd, 0, 0, "", a, b)
}

func (s *Store) Or(a, b *Term) *Term {
	if a.IsTrue() || b.IsTrue() {
		return s.True
	}
	if a.IsFalse() {
		return b
	}
	if b.IsFalse() {
		return a
	}
	if a == b {
		return a
	}
	if s.Not(a) == b {
		return s.True
	}
	if a.ID > b.ID {
		a, b = b, a
	}
	return s.mk(OpOr, 0, 0, "", a, b)
}

func (s *Store) Implies(a, b *Term) *Term { return s.Or(s.Not(a), b) }

func (s *Store) Ite(c, a, b *Term) *Term {
	if c.W != 0 {
		panic("Ite cond not bool")
	}
	if a.W != b.W {
		panic(fmt.Sprintf("Ite width mismatch %d %d", a.W, b.W))
	}
	if c.IsTrue() {
		return a
	}
	if c.IsFalse() {
		return b
	}
	if a == b {
		return a
	}
	if a.W == 0 {
		if a.IsTrue() && b.IsFalse() {
			return c
		}
		if a.IsFalse() && b.IsTrue() {
			return s.Not(c)
		}
		if a.IsTrue() {
			return s.Or(c, b)
		}
		if a.IsFalse() {
			return s.And(s.Not(c), b)
		}
		if b.IsTrue() {
			return s.Or(s.Not(c), a)
		}
		if b.IsFalse() {
			return s.And(c, a)
		}
	}
	if c.Op == OpNot {
		return s.Ite(c.A[0], b, a)
	}
	return s.mk(OpIte, a.W, 0, "", c, a, b)
}

func (s *Store) Eq(a, b *Term) *Term {
	if a.W != b.W {
		panic(fmt.Sprintf("Eq width mismatch %d %d", a.W, b.W))
	}
	if a == b {
		return s.True
	}
	if a.IsConst() && b.IsConst() {
		return s.Bool(a.C == b.C)
	}
	if a.W == 0 {
		if a.IsConst() {
			a, b = b, a
		}
		if b.IsTrue() {
			return a
		}
		if b.IsFalse() {
			return s.Not(a)
		}
	}
	// eq(ite(c,k1,k2), k) with constants
	if b.IsConst() && a.Op == OpIte || a.IsConst() && b.Op == OpIte {
		if a.IsConst() {
			a, b = b, a
		}
		t, e := a.A[1], a.A[2]
		if t.IsConst() || e.IsConst() {
			return s.Ite(a.A[0], s.Eq(t, b), s.Eq(e, b))
		}
	}
	// eq(zext(x), const)
	if b.IsConst() && a.Op == OpZext {
		x := a.A[0]
		if b.C&^mask(x.W) != 0 {
			return s.False
		}
		return s.Eq(x, s.BV(b.C, x.W))
	}
	if a.IsConst() && b.Op == OpZext {
		return s.Eq(b, a)
	}
	if a.Op == OpZext && b.Op == OpZext && a.A[0].W == b.A[0].W {
		return s.Eq(a.A[0], b.A[0])
	}
	if a.Op == OpSext && b.Op == OpSext && a.A[0].W == b.A[0].W {
		return s.Eq(a.A[0], b.A[0])
	}
	// eq(concat(h,l), const) -> split
	if b.IsConst() && a.Op == OpConcat {
		h, l := a.A[0], a.A[1]
		return s.And(s.Eq(h, s.BV(b.C>>l.W, h.W)), s.Eq(l, s.BV(b.C, l.W)))
	}
	if a.IsConst() && b.Op == OpConcat {
		return s.Eq(b, a)
	}
	if a.ID > b.ID {
		a, b = b, a
	}
	return s.mk(OpEq, 0, 0, "", a, b)
}

func (s *Store) Ne(a, b *Term) *Term { return s.Not(s.Eq(a, b)) }

// ---------- bit-vector ----------

func (s *Store) bin(op Op, a, b *Term) *Term {
	if a.W != b.W || a.W == 0 {
		panic(fmt.Sprintf("bv binop %d width mismatch %d %d", op, a.W, b.W))
	}
	w := a.W
	m := mask(w)
	if a.IsConst() && b.IsConst() {
		x, y := a.C, b.C
		var r uint64
		switch op {
		case OpBvAdd:
			r = x + y
		case OpBvSub:
			r = x - y
		case OpBvMul:
			r = x * y
		case OpBvUDiv:
			if y == 0 {
				r = m
			} else {
				r = x / y
			}
		case OpBvURem:
			if y == 0 {
				r = x
			} else {
				r = x % y
			}
		case OpBvSDiv:
			sx_, sy := sx(x, w), sx(y, w)
			if sy == 0 {
				if sx_ < 0 {
					r = 1
				} else {
					r = m
				}
			} else if sy == -1 {
				r = uint64(-sx_)
			} else {
				r = uint64(sx_ / sy)
			}
		case OpBvSRem:
			sx_, sy := sx(x, w), sx(y, w)
			if sy == 0 {
				r = x
			} else if sy == -1 {
				r = 0
			} else {
				r = uint64(sx_ % sy)
			}
		case OpBvAnd:
			r = x & y
		case OpBvOr:
			r = x | y
		case OpBvXor:
			r = x ^ y
		case OpBvShl:
			if y >= uint64(w) {
				r = 0
			} else {
				r = x << y
			}
		case OpBvLshr:
			if y >= uint64(w) {
				r = 0
			} else {
				r = x >> y
			}
		case OpBvAshr:
			if y >= uint64(w) {
				y = uint64(w) - 1
			}
			r = uint64(sx(x, w) >> y)
		}
		return s.BV(r, w)
	}
	// an operand that is a decision tree over constants (e.g. bits.Len64 of a symbol) combined with a
	// constant: fold the constant into the leaves instead of keeping e.g. a division in the formula
	if b.IsConst() && a.Op == OpIte && s.constTree(a, 80) {
		return s.mapLeaves(a, func(l *Term) *Term { return s.bin(op, l, b) })
	}
	if a.IsConst() && b.Op == OpIte && s.constTree(b, 80) {
		return s.mapLeaves(b, func(l *Term) *Term { return s.bin(op, a, l) })
	}
	// commutative normalisation: constant on the right
	switch op {
	case OpBvAdd, OpBvMul, OpBvAnd, OpBvOr, OpBvXor:
		if a.IsConst() || (!b.IsConst() && a.ID > b.ID) {
			a, b = b, a
		}
	}
	if b.IsConst() {
		y := b.C
		switch op {
		case OpBvAdd, OpBvSub, OpBvOr, OpBvXor, OpBvShl, OpBvLshr, OpBvAshr:
			if y == 0 {
				return a
			}
		}
		switch op {
		case OpBvAdd:
			// (x + c1) + c2
			if a.Op == OpBvAdd && a.A[1].IsConst() {
				return s.bin(OpBvAdd, a.A[0], s.BV(a.A[1].C+y, w))
			}
		case OpBvSub:
			return s.bin(OpBvAdd, a, s.BV(-y, w))
		case OpBvMul:
			if y == 0 {
				return b
			}
			if y == 1 {
				return a
			}
		case OpBvUDiv, OpBvSDiv:
			if y == 1 {
				return a
			}
		case OpBvAnd:
			if y == 0 {
				return b
			}
			if y == m {
				return a
			}
			// and(zext(x), mask covering x) = zext(x)
			if a.Op == OpZext && y&mask(a.A[0].W) == mask(a.A[0].W) {
				return a
			}
			// low-bit masks -> zext(extract)
			if y&(y+1) == 0 { // y = 2^k-1
				k := uint8(bits.Len64(y))
				return s.Zext(s.Extract(a, k-1, 0), w)
			}
		case OpBvOr:
			if y == m {
				return b
			}
		case OpBvShl:
			if y >= uint64(w) {
				return s.BV(0, w)
			}
			// shl by constant: concat(extract(w-1-y,0), 0)
			return s.Concat(s.Extract(a, w-1-uint8(y), 0), s.BV(0, uint8(y)))
		case OpBvLshr:
			if y >= uint64(w) {
				return s.BV(0, w)
			}
			return s.Zext(s.Extract(a, w-1, uint8(y)), w)
		case OpBvAshr:
			if y >= uint64(w) {
				y = uint64(w) - 1
			}
			return s.Sext(s.Extract(a, w-1, uint8(y)), w)
		}
	}
	if a.IsConst() {
		x := a.C
		switch op {
		case OpBvShl, OpBvLshr:
			if x == 0 {
				return a
			}
		case OpBvSub:
			if x == 0 {
				return s.Neg(b)
			}
		}
	}
	if a == b {
		switch op {
		case OpBvSub, OpBvXor:
			return s.BV(0, w)
		case OpBvAnd, OpBvOr:
			return a
		}
	}
	return s.mk(op, w, 0, "", a, b)
}

func (s *Store) Add(a, b *Term) *Term  { return s.bin(OpBvAdd, a, b) }
func (s *Store) Sub(a, b *Term) *Term  { return s.bin(OpBvSub, a, b) }
func (s *Store) Mul(a, b *Term) *Term  { return s.bin(OpBvMul, a, b) }
func (s *Store) UDiv(a, b *Term) *Term { return s.bin(OpBvUDiv, a, b) }
func (s *Store) URem(a, b *Term) *Term { return s.bin(OpBvURem, a, b) }
func (s *Store) SDiv(a, b *Term) *Term { return s.bin(OpBvSDiv, a, b) }
func (s *Store) SRem(a, b *Term) *Term { return s.bin(OpBvSRem, a, b) }
func (s *Store) BvAnd(a, b *Term) *Term {
	return s.bin(OpBvAnd, a, b)
}
func (s *Store) BvOr(a, b *Term) *Term  { return s.bin(OpBvOr, a, b) }
func (s *Store) BvXor(a, b *Term) *Term { return s.bin(OpBvXor, a, b) }
func (s *Store) Shl(a, b *Term) *Term   { return s.bin(OpBvShl, a, b) }
func (s *Store) Lshr(a, b *Term) *Term  { return s.bin(OpBvLshr, a, b) }
func (s *Store) Ashr(a, b *Term) *Term  { return s.bin(OpBvAshr, a, b) }

func (s *Store) BvNot(a *Term) *Term {
	if a.IsConst() {
		return s.BV(^a.C, a.W)
	}
	if a.Op == OpBvNot {
		return a.A[0]
	}
	return s.mk(OpBvNot, a.W, 0, "", a)
}

func (s *Store) Neg(a *Term) *Term {
	if a.IsConst() {
		return s.BV(-a.C, a.W)
	}
	if a.Op == OpBvNeg {
		return a.A[0]
	}
	return s.mk(OpBvNeg, a.W, 0, "", a)
}

func (s *Store) cmp(op Op, a, b *Term) *Term {
	if a.W != b.W || a.W == 0 {
		panic(fmt.Sprintf("bv cmp width mismatch %d %d", a.W, b.W))
	}
	w := a.W
	if a.IsConst() && b.IsConst() {
		switch op {
		case OpBvUlt:
			return s.Bool(a.C < b.C)
		case OpBvUle:
			return s.Bool(a.C <= b.C)
		case OpBvSlt:
			return s.Bool(sx(a.C, w) < sx(b.C, w))
		case OpBvSle:
			return s.Bool(sx(a.C, w) <= sx(b.C, w))
		}
	}
	if a == b {
		return s.Bool(op == OpBvUle || op == OpBvSle)
	}
	switch op {
	case OpBvUlt:
		if b.IsConst() && b.C == 0 {
			return s.False
		}
		if a.IsConst() && a.C == mask(w) {
			return s.False
		}
		// zext(x) < const >= 2^xw
		if a.Op == OpZext && b.IsConst() && b.C > mask(a.A[0].W) {
			return s.True
		}
		if a.Op == OpZext && b.IsConst() {
			return s.cmp(OpBvUlt, a.A[0], s.BV(b.C, a.A[0].W))
		}
	case OpBvUle:
		if a.IsConst() && a.C == 0 {
			return s.True
		}
		if b.IsConst() && b.C == mask(w) {
			return s.True
		}
		if a.Op == OpZext && b.IsConst() && b.C >= mask(a.A[0].W) {
			return s.True
		}
	case OpBvSlt:
		// zext(x) <s const (positive) where zext strictly widens
		if a.Op == OpZext && a.A[0].W < w && b.IsConst() && sx(b.C, w) >= 0 {
			return s.cmp(OpBvUlt, a, b)
		}
		if a.Op == OpZext && a.A[0].W < w && b.IsConst() && sx(b.C, w) < 0 {
			return s.False
		}
		if b.Op == OpZext && b.A[0].W < w && a.IsConst() && sx(a.C, w) < 0 {
			return s.True
		}
	case OpBvSle:
		if a.Op == OpZext && a.A[0].W < w && b.IsConst() && sx(b.C, w) >= 0 {
			return s.cmp(OpBvUle, a, b)
		}
		if b.Op == OpZext && b.A[0].W < w && a.IsConst() && sx(a.C, w) <= 0 {
			return s.True
		}
	}
	return s.mk(op, 0, 0, "", a, b)
}

// constTree reports whether t is a constant or an ite whose else-spine (up to depth) has constant then-branches.
func (s *Store) constTree(t *Term, depth int) bool {
	for ; depth > 0; depth-- {
		if t.IsConst() {
			return true
		}
		if t.Op != OpIte || !t.A[1].IsConst() {
			return false
		}
		t = t.A[2]
	}
	return false
}

func (s *Store) mapLeaves(t *Term, f func(*Term) *Term) *Term {
	if t.IsConst() {
		return f(t)
	}
	return s.Ite(t.A[0], f(t.A[1]), s.mapLeaves(t.A[2], f))
}

func (s *Store) Ult(a, b *Term) *Term { return s.cmp(OpBvUlt, a, b) }
func (s *Store) Ule(a, b *Term) *Term { return s.cmp(OpBvUle, a, b) }
func (s *Store) Slt(a, b *Term) *Term { return s.cmp(OpBvSlt, a, b) }
func (s *Store) Sle(a, b *Term) *Term { return s.cmp(OpBvSle, a, b) }

func (s *Store) Extract(a *Term, hi, lo uint8) *Term {
	if hi < lo || hi >= a.W {
		panic(fmt.Sprintf("bad extract [%d:%d] of width %d", hi, lo, a.W))
	}
	w := hi - lo + 1
	if w == a.W {
		return a
	}
	if a.IsConst() {
		return s.BV(a.C>>lo, w)
	}
	switch a.Op {
	case OpExtract:
		l0 := uint8(a.C & 0xff)
		return s.Extract(a.A[0], hi+l0, lo+l0)
	case OpConcat:
		h, l := a.A[0], a.A[1]
		if hi < l.W {
			return s.Extract(l, hi, lo)
		}
		if lo >= l.W {
			return s.Extract(h, hi-l.W, lo-l.W)
		}
		return s.Concat(s.Extract(h, hi-l.W, 0), s.Extract(l, l.W-1, lo))
	case OpZext:
		x := a.A[0]
		if hi < x.W {
			return s.Extract(x, hi, lo)
		}
		if lo >= x.W {
			return s.BV(0, w)
		}
		return s.Zext(s.Extract(x, x.W-1, lo), w)
	case OpSext:
		x := a.A[0]
		if hi < x.W {
			return s.Extract(x, hi, lo)
		}
		if lo < x.W {
			return s.Sext(s.Extract(x, x.W-1, lo), w)
		}
	case OpBvAnd, OpBvOr, OpBvXor:
		if a.A[1].IsConst() {
			return s.bin(a.Op, s.Extract(a.A[0], hi, lo), s.Extract(a.A[1], hi, lo))
		}
	case OpIte:
		if a.A[1].IsConst() || a.A[2].IsConst() {
			return s.Ite(a.A[0], s.Extract(a.A[1], hi, lo), s.Extract(a.A[2], hi, lo))
		}
	case OpBvAdd, OpBvSub, OpBvMul:
		if lo == 0 { // low bits depend only on low bits
			return s.bin(a.Op, s.Extract(a.A[0], hi, 0), s.Extract(a.A[1], hi, 0))
		}
	}
	return s.mk(OpExtract, w, uint64(hi)<<8|uint64(lo), "", a)
}

func (s *Store) Concat(h, l *Term) *Term {
	w := int(h.W) + int(l.W)
	if w > 64 {
		panic("concat wider than 64")
	}
	if h.IsConst() && l.IsConst() {
		return s.BV(h.C<<l.W|l.C, uint8(w))
	}
	// adjacent extracts of the same term
	if h.Op == OpExtract && l.Op == OpExtract && h.A[0] == l.A[0] {
		hl := uint8(h.C & 0xff)
		lh := uint8(l.C >> 8)
		if hl == lh+1 {
			return s.Extract(h.A[0], uint8(h.C>>8), uint8(l.C&0xff))
		}
	}
	// h = extract(x, top..k), l = concat(extract(x,k-1..j), rest)
	if h.Op == OpExtract && l.Op == OpConcat && l.A[0].Op == OpExtract && l.A[0].A[0] == h.A[0] {
		hl := uint8(h.C & 0xff)
		lh := uint8(l.A[0].C >> 8)
		if hl == lh+1 {
			return s.Concat(s.Extract(h.A[0], uint8(h.C>>8), uint8(l.A[0].C&0xff)), l.A[1])
		}
	}
	// h = extract(x, top..k) and l is (a simplified form of) extract(x, k-1..j): extracts of sums and
	// products are narrowed on construction, so compare with what Extract would build
	if h.Op == OpExtract {
		hl := uint8(h.C & 0xff)
		if hl >= l.W && l.W > 0 && !l.IsConst() {
			if cand := s.Extract(h.A[0], hl-1, hl-l.W); cand == l {
				return s.Extract(h.A[0], uint8(h.C>>8), hl-l.W)
			}
		}
		if l.Op == OpConcat {
			l0 := l.A[0]
			if hl >= l0.W && !l0.IsConst() {
				if cand := s.Extract(h.A[0], hl-1, hl-l0.W); cand == l0 {
					return s.Concat(s.Extract(h.A[0], uint8(h.C>>8), hl-l0.W), l.A[1])
				}
			}
		}
	}
	if h.IsConst() && h.C == 0 {
		return s.Zext(l, uint8(w))
	}
	// concat(concat(a,b),c) -> concat(a, concat(b,c)) for canonical right nesting
	if h.Op == OpConcat {
		return s.Concat(h.A[0], s.Concat(h.A[1], l))
	}
	return s.mk(OpConcat, uint8(w), 0, "", h, l)
}

func (s *Store) Zext(a *Term, w uint8) *Term {
	if w == a.W {
		return a
	}
	if w < a.W {
		panic("zext narrowing")
	}
	if a.IsConst() {
		return s.BV(a.C, w)
	}
	if a.Op == OpZext {
		return s.Zext(a.A[0], w)
	}
	return s.mk(OpZext, w, 0, "", a)
}

func (s *Store) Sext(a *Term, w uint8) *Term {
	if w == a.W {
		return a
	}
	if w < a.W {
		panic("sext narrowing")
	}
	if a.IsConst() {
		return s.BV(uint64(sx(a.C, a.W)), w)
	}
	if a.Op == OpSext {
		return s.Sext(a.A[0], w)
	}
	if a.Op == OpZext && a.A[0].W < a.W {
		return s.Zext(a.A[0], w)
	}
	return s.mk(OpSext, w, 0, "", a)
}

// Resize converts a to width w, sign- or zero-extending / truncating.
func (s *Store) Resize(a *Term, w uint8, signed bool) *Term {
	switch {
	case w == a.W:
		return a
	case w < a.W:
		return s.Extract(a, w-1, 0)
	case signed:
		return s.Sext(a, w)
	default:
		return s.Zext(a, w)
	}
}

// BoolToBV gives ite(b,1,0) of width w.
func (s *Store) BoolToBV(b *Term, w uint8) *Term { return s.Ite(b, s.BV(1, w), s.BV(0, w)) }

// ---------- floating point (operands are bit patterns) ----------

func fbits(w uint8, f float64) uint64 {
	if w == 32 {
		return uint64(math.Float32bits(float32(f)))
	}
	return math.Float64bits(f)
}
func ffrom(w uint8, b uint64) float64 {
	if w == 32 {
		return float64(math.Float32frombits(uint32(b)))
	}
	return math.Float64frombits(b)
}

func (s *Store) FBin(op Op, a, b *Term) *Term {
	if a.W != b.W || (a.W != 32 && a.W != 64) {
		panic("fbin width")
	}
	w := a.W
	if a.IsConst() && b.IsConst() {
		x, y := ffrom(w, a.C), ffrom(w, b.C)
		var r float64
		if w == 32 {
			x32, y32 := float32(x), float32(y)
			var r32 float32
			switch op {
			case OpFAdd:
				r32 = x32 + y32
			case OpFSub:
				r32 = x32 - y32
			case OpFMul:
				r32 = x32 * y32
			case OpFDiv:
				r32 = x32 / y32
			}
			return s.BV(uint64(math.Float32bits(r32)), 32)
		}
		switch op {
		case OpFAdd:
			r = x + y
		case OpFSub:
			r = x - y
		case OpFMul:
			r = x * y
		case OpFDiv:
			r = x / y
		}
		return s.BV(math.Float64bits(r), 64)
	}
	return s.mk(op, w, 0, "", a, b)
}

func (s *Store) FCmp(op Op, a, b *Term) *Term {
	if a.W != b.W {
		panic("fcmp width")
	}
	if a.IsConst() && b.IsConst() {
		x, y := ffrom(a.W, a.C), ffrom(a.W, b.C)
		switch op {
		case OpFLt:
			return s.Bool(x < y)
		case OpFLe:
			return s.Bool(x <= y)
		case OpFEq:
			return s.Bool(x == y)
		}
	}
	return s.mk(op, 0, 0, "", a, b)
}

func (s *Store) FNeg(a *Term) *Term {
	// Go negation flips the sign bit (also of NaN)
	return s.BvXor(a, s.BV(uint64(1)<<(a.W-1), a.W))
}

func (s *Store) FAbs(a *Term) *Term {
	return s.BvAnd(a, s.BV(mask(a.W)>>1, a.W))
}

func (s *Store) FIsNaN(a *Term) *Term {
	if a.IsConst() {
		f := ffrom(a.W, a.C)
		return s.Bool(f != f)
	}
	return s.mk(OpFIsNaN, 0, 0, "", a)
}

func (s *Store) FIsInf(a *Term) *Term {
	if a.IsConst() {
		return s.Bool(math.IsInf(ffrom(a.W, a.C), 0))
	}
	return s.mk(OpFIsInf, 0, 0, "", a)
}

func (s *Store) FCvt(a *Term, w uint8) *Term {
	if a.W == w {
		return a
	}
	if a.IsConst() {
		return s.BV(fbits(w, ffrom(a.W, a.C)), w)
	}
	return s.mk(OpFCvt, w, 0, "", a)
}

func (s *Store) IToF(a *Term, signed bool, w uint8) *Term {
	if a.IsConst() {
		var f float64
		if signed {
			f = float64(sx(a.C, a.W))
			if w == 32 {
				f = float64(float32(sx(a.C, a.W)))
			}
		} else {
			f = float64(a.C)
			if w == 32 {
				f = float64(float32(a.C))
			}
		}
		return s.BV(fbits(w, f), w)
	}
	if signed {
		return s.mk(OpSIToF, w, 0, "", a)
	}
	return s.mk(OpUIToF, w, 0, "", a)
}

// FToI converts float bits to an integer of width w (round toward zero). For out-of-range or NaN
// inputs the amd64 result (0x80..0 for signed) is produced explicitly.
func (s *Store) FToI(a *Term, signed bool, w uint8) *Term {
	if a.IsConst() {
		f := ffrom(a.W, a.C)
		if signed {
			var r int64
			switch w {
			case 64:
				r = int64(f)
			case 32:
				r = int64(int32(f))
			case 16:
				r = int64(int16(f))
			case 8:
				r = int64(int8(f))
			}
			return s.BV(uint64(r), w)
		}
		var r uint64
		switch w {
		case 64:
			r = uint64(f)
		case 32:
			r = uint64(uint32(f))
		case 16:
			r = uint64(uint16(f))
		case 8:
			r = uint64(uint8(f))
		}
		return s.BV(r, w)
	}
	if signed {
		return s.mk(OpFToSI, w, 0, "", a)
	}
	return s.mk(OpFToUI, w, 0, "", a)
}

func (s *Store) FRound(a *Term, mode uint64) *Term {
	if a.IsConst() && a.W == 64 {
		f := ffrom(64, a.C)
		switch mode {
		case 0:
			f = math.Floor(f)
		case 1:
			f = math.Ceil(f)
		case 2:
			f = math.Trunc(f)
		case 3:
			f = math.RoundToEven(f)
		}
		return s.BV(math.Float64bits(f), 64)
	}
	return s.mk(OpFRound, a.W, mode, "", a)
}

func (s *Store) FSqrt(a *Term) *Term {
	if a.IsConst() && a.W == 64 {
		return s.BV(math.Float64bits(math.Sqrt(ffrom(64, a.C))), 64)
	}
	return s.mk(OpFSqrt, a.W, 0, "", a)
}

// ---------- evaluation under a model ----------

// Eval computes the value of t under an assignment of variables (missing = 0). UFs evaluate via uf
// callback (may be nil -> 0).
func (s *Store) Eval(t *Term, env map[string]uint64, cache map[*Term]uint64) uint64 {
	if v, ok := cache[t]; ok {
		return v
	}
	var r uint64
	switch t.Op {
	case OpConst:
		r = t.C
	case OpVar:
		r = env[t.Name] & maskOrBool(t.W)
	default:
		args := make([]*Term, len(t.A))
		for i, a := range t.A {
			w := a.W
			v := s.Eval(a, env, cache)
			if w == 0 {
				args[i] = s.Bool(v != 0)
			} else {
				args[i] = s.BV(v, w)
			}
		}
		nt := s.Rebuild(t, args)
		if !nt.IsConst() {
			// UF or non-foldable: treat as 0
			r = 0
		} else {
			r = nt.C
		}
	}
	cache[t] = r
	return r
}

func maskOrBool(w uint8) uint64 {
	if w == 0 {
		return 1
	}
	return mask(w)
}

// Rebuild constructs a term with the same operator as t over new args.
func (s *Store) Rebuild(t *Term, a []*Term) *Term {
	switch t.Op {
	case OpConst, OpVar:
		return t
	case OpNot:
		return s.Not(a[0])
	case OpAnd:
		return s.And(a[0], a[1])
	case OpOr:
		return s.Or(a[0], a[1])
	case OpIte:
		return s.Ite(a[0], a[1], a[2])
	case OpEq:
		return s.Eq(a[0], a[1])
	case OpBvAdd, OpBvSub, OpBvMul, OpBvUDiv, OpBvURem, OpBvSDiv, OpBvSRem, OpBvAnd, OpBvOr, OpBvXor, OpBvShl, OpBvLshr, OpBvAshr:
		return s.bin(t.Op, a[0], a[1])
	case OpBvNot:
		return s.BvNot(a[0])
	case OpBvNeg:
		return s.Neg(a[0])
	case OpBvUlt, OpBvUle, OpBvSlt, OpBvSle:
		return s.cmp(t.Op, a[0], a[1])
	case OpConcat:
		return s.Concat(a[0], a[1])
	case OpExtract:
		return s.Extract(a[0], uint8(t.C>>8), uint8(t.C&0xff))
	case OpZext:
		return s.Zext(a[0], t.W)
	case OpSext:
		return s.Sext(a[0], t.W)
	case OpFAdd, OpFSub, OpFMul, OpFDiv:
		return s.FBin(t.Op, a[0], a[1])
	case OpFLt, OpFLe, OpFEq:
		return s.FCmp(t.Op, a[0], a[1])
	case OpFIsNaN:
		return s.FIsNaN(a[0])
	case OpFIsInf:
		return s.FIsInf(a[0])
	case OpFCvt:
		return s.FCvt(a[0], t.W)
	case OpSIToF:
		return s.IToF(a[0], true, t.W)
	case OpUIToF:
		return s.IToF(a[0], false, t.W)
	case OpFToSI:
		return s.FToI(a[0], true, t.W)
	case OpFToUI:
		return s.FToI(a[0], false, t.W)
	case OpFRound:
		return s.FRound(a[0], t.C)
	case OpFSqrt:
		return s.FSqrt(a[0])
	case OpUF:
		return s.UF(t.Name, t.W, a...)
	}
	panic("Rebuild: unknown op")
}

// HasOp reports whether any node of t uses one of the ops.
func HasOp(t *Term, seen map[*Term]bool, ops ...Op) bool {
	if seen[t] {
		return false
	}
	seen[t] = true
	for _, o := range ops {
		if t.Op == o {
			if o == OpBvMul || o == OpBvUDiv || o == OpBvURem || o == OpBvSDiv || o == OpBvSRem {
				// only hard if an operand is a non-power-of-two constant or both symbolic
				return true
			}
			return true
		}
	}
	for _, a := range t.A {
		if HasOp(a, seen, ops...) {
			return true
		}
	}
	return false
}

// Vars collects the variables (name -> width) of t.
func Vars(t *Term, seen map[*Term]bool, out map[string]uint8) {
	if seen[t] {
		return
	}
	seen[t] = true
	if t.Op == OpVar {
		out[t.Name] = t.W
	}
	for _, a := range t.A {
		Vars(a, seen, out)
	}
}

// Size is the number of distinct nodes.
func Size(t *Term, seen map[*Term]bool) int {
	if seen[t] {
		return 0
	}
	seen[t] = true
	n := 1
	for _, a := range t.A {
		n += Size(a, seen)
	}
	return n
}

// EvalOK is Eval that also reports whether every node could be evaluated (no uninterpreted functions).
func (s *Store) EvalOK(t *Term, env map[string]uint64, cache map[*Term]uint64, bad map[*Term]bool) (uint64, bool) {
	if v, ok := cache[t]; ok {
		return v, true
	}
	if bad[t] {
		return 0, false
	}
	var r uint64
	switch t.Op {
	case OpConst:
		r = t.C
	case OpVar:
		r = env[t.Name] & maskOrBool(t.W)
	case OpUF:
		bad[t] = true
		return 0, false
	case OpIte:
		c, ok := s.EvalOK(t.A[0], env, cache, bad)
		if !ok {
			bad[t] = true
			return 0, false
		}
		k := 2
		if c != 0 {
			k = 1
		}
		v, ok := s.EvalOK(t.A[k], env, cache, bad)
		if !ok {
			bad[t] = true
			return 0, false
		}
		r = v
	default:
		args := make([]*Term, len(t.A))
		for i, a := range t.A {
			v, ok := s.EvalOK(a, env, cache, bad)
			if !ok {
				bad[t] = true
				return 0, false
			}
			if a.W == 0 {
				args[i] = s.Bool(v != 0)
			} else {
				args[i] = s.BV(v, a.W)
			}
		}
		nt := s.Rebuild(t, args)
		if !nt.IsConst() {
			bad[t] = true
			return 0, false
		}
		r = nt.C
	}
	cache[t] = r
	return r, true
}
