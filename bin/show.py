import json,sys
d=json.load(open(sys.argv[1]))
print('error',d.get('error'),'load',d['load_s'],'build', d['build_s'], 'pkgs', d.get('packages_loaded'))
for r in d['results'] or []:
  print('==',r['entry'])
  for k in ['paths','pruned','decisions','asserts_discharged','failures','unknowns','bound_hits','unsupported','witnesses','queries','solver_time_s','wall_s','steps','init_issues','incomplete']:
    v=r.get(k)
    if k=='failures':
      for f in v or []:
        print('  FAIL',f['kind'],f['msg'],[ (i['name'],i['value']) for i in f['inputs']][:40]); print(f.get('stack','')[:1500])
    elif k=='unsupported':
      for u in v or []: print('  UNSUPPORTED',u[:1500])
    elif k in ('unknowns','bound_hits'): print(' ',k,len(v or []),(v or [''])[0][:300])
    else: print(' ',k,v)
