#!/bin/bash
# runs every claimed check (or the listed ones) at the given tier and prints one summary line each
# usage: tools/runall.sh [quick|thorough] [id ...]
tier=${1:-quick}; shift
cd "$(dirname "$0")/.."
mkdir -p /tmp/runall-$tier
ids="$*"
[ -n "$ids" ] || ids=$(python3 -c "import json; print(' '.join(c['property_id'] for c in json.load(open('MANIFEST.json'))['checks']))")
for id in $ids; do
  s=$(date +%s)
  ./check $id $tier > /tmp/runall-$tier/$id.log 2>&1
  rc=$?
  echo "$id rc=$rc $(( $(date +%s) - s ))s $(grep '^check ' /tmp/runall-$tier/$id.log | tail -1)"
  grep '^VIOLATION\|^INCONCLUSIVE\|^KNOWN-FINDING' /tmp/runall-$tier/$id.log | cut -c1-300
done
