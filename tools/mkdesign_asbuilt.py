#!/usr/bin/env python3
"""Refreshes the 'As built' line under every per-property heading of DESIGN.md section 6 from harness.json."""
import re, json, os
root = os.path.dirname(os.path.dirname(os.path.abspath(__file__)))
p = os.path.join(root, "DESIGN.md")
s = open(p).read()
s = re.sub(r"\n\*As built \(this section is the plan[^\n]*\n", "", s)
def repl(m):
    pid = m.group(1)
    try:
        d = json.load(open(os.path.join(root, "harness", pid, "harness.json")))
    except Exception:
        return m.group(0)
    names = [e["name"] for g in d["groups"] for e in g["entries"]]
    return m.group(0) + "\n*As built (this section is the plan; what exists is in 0.4, 0.5 and `harness/%s/harness.json`):* %d entries - %s.\n" % (
        pid, len(names), ", ".join("`%s`" % n for n in names))
s = re.sub(r"^### (C\d\d) — [^\n]*\n", repl, s, flags=re.M)
open(p, "w").write(s)
