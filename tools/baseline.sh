#!/bin/bash
# Runs the repository's baseline suite (guard off: there are no hooks in /repo) and reports tests of
# BASELINE.stable_pass that did not pass. Usage: tools/baseline.sh [out.json]
OUT=${1:-/tmp/verif-baseline.gotest.json}
export GOPROXY=off
: > "$OUT"
for m in $(cat /w/out/gomods.txt); do
  MF=$(cd /repo/$m && . /w/out/goenv.sh && gomodflag)
  (cd /repo/$m && go test $MF -json -vet=off -count=1 -timeout 25m ./... >> "$OUT" 2>/dev/null)
done
python3 - "$OUT" <<'PY'
import json, sys
passed, failed = set(), set()
for line in open(sys.argv[1], errors="replace"):
    try:
        d = json.loads(line)
    except Exception:
        continue
    if d.get("Test") and d.get("Action") in ("pass", "fail"):
        k = "%s::%s" % (d["Package"], d["Test"])
        (passed if d["Action"] == "pass" else failed).add(k)
stable = set(json.load(open("/root/.vp/BASELINE.json"))["stable_pass"])
missing = sorted(stable - passed)
print("stable_pass=%d passed_now=%d stable_not_passed=%d" % (len(stable), len(stable & passed), len(missing)))
for m in missing[:60]:
    print("  NOT-PASSED", m, "(failed)" if m in failed else "(not run)")
PY
