#!/usr/bin/env python3
"""confirm_seed.py <prop-id> <k> [--extra-pkgs ./a/...,./b]
Confirms a seeded change delivered by a sub-agent in /tmp/seed/out/<id>/<k>.{diff,md} + <k>_demo_test.go:
  1. demo passes on the unchanged tree, 2. demo fails with the change, 3. the change compiles and every
  BASELINE stable_pass test of the packages it touches (plus the demo's package) still passes.
On success the change is stored as /verif/seeded/<id>-<k>/ (patch.diff, demo test, meta.json)."""
import json, os, re, subprocess, sys, shutil

pid, k = sys.argv[1], sys.argv[2]
extra = []
if "--extra-pkgs" in sys.argv:
    extra = sys.argv[sys.argv.index("--extra-pkgs") + 1].split(",")
src = os.environ.get("SEED_OUT", "/tmp/seed/out") + "/%s" % pid
patch = os.path.join(src, k + ".diff")
demo = os.path.join(src, k + "_demo_test.go")
wt = "/tmp/seed/confirm-%s-%s" % (pid, k)
env = dict(os.environ, GOFLAGS="-mod=mod", GOPROXY="off")


def sh(cmd, **kw):
    return subprocess.run(cmd, shell=True, capture_output=True, text=True, env=env, **kw)


def gotest(pkgs, run=None, timeout=2400):
    cmd = "go test -json -vet=off -count=1 -p 4 -timeout 25m %s %s" % ("-run '%s'" % run if run else "", " ".join(pkgs))
    try:
        r = subprocess.run(cmd, shell=True, capture_output=True, text=True, env=env, cwd=wt, timeout=timeout)
    except subprocess.TimeoutExpired:
        return {}, {}, "timeout"
    passed, failed = {}, {}
    for line in r.stdout.splitlines():
        try:
            d = json.loads(line)
        except Exception:
            continue
        if d.get("Test") and d.get("Action") in ("pass", "fail"):
            (passed if d["Action"] == "pass" else failed)["%s::%s" % (d["Package"], d["Test"])] = 1
    return passed, failed, r.stdout[-3000:] + r.stderr[-3000:]


sh("git -C /repo worktree remove --force %s" % wt)
r = sh("git -C /repo worktree add --detach %s HEAD" % wt)
if r.returncode != 0:
    print("worktree failed", r.stderr)
    sys.exit(2)
try:
    first = open(demo).readline()
    m = re.search(r"place in:\s*(\S+)", first)
    if not m:
        print("demo has no 'place in:' line")
        sys.exit(2)
    demodir = m.group(1).strip("/").rstrip("/")
    demodst = os.path.join(wt, demodir, "zz_seed_%s_test.go" % k)
    shutil.copy(demo, demodst)
    demotests = re.findall(r"^func (Test\w+)\(", open(demo).read(), re.M)
    runpat = "^(%s)$" % "|".join(demotests)
    p0, f0, tail0 = gotest(["./" + demodir], runpat)
    ok_unchanged = bool(p0) and not f0
    print("demo on unchanged tree: passed=%d failed=%d" % (len(p0), len(f0)))
    if not ok_unchanged:
        print(tail0)
    r = sh("git apply %s" % patch, cwd=wt)
    if r.returncode != 0:
        print("patch does not apply:", r.stderr)
        sys.exit(1)
    touched = sorted({os.path.dirname(l[6:]) for l in open(patch) if l.startswith("+++ b/")})
    p1, f1, tail1 = gotest(["./" + demodir], runpat)
    fails_changed = bool(f1)
    print("demo with change: passed=%d failed=%d" % (len(p1), len(f1)))
    os.remove(demodst)
    pkgs = sorted({"./" + t for t in touched} | {"./" + demodir} | set(extra))
    stable = set(json.load(open("/root/.vp/BASELINE.json"))["stable_pass"])
    p2, f2, tail2 = gotest(pkgs)
    mod = "github.com/openGemini/openGemini/"
    relevant = {s for s in stable if any(s.split("::")[0] == mod + p[2:].rstrip("/.") or (p.endswith("/...") and s.startswith(mod + p[2:-4])) for p in pkgs)}
    broken = sorted(s for s in relevant if s not in p2)
    print("existing tests with change in %s: stable=%d passed_of_stable=%d not_passed=%d" % (pkgs, len(relevant), len(relevant) - len(broken), len(broken)))
    for b in broken[:20]:
        print("   NOT PASSED:", b, "(failed)" if b in f2 else "(not run: build failure?)")
    if not p2:
        print(tail2)
    good = ok_unchanged and fails_changed and not broken and bool(p2)
    print("CONFIRMED" if good else "REJECTED")
    if good:
        dst = "/verif/seeded/%s-%s" % (pid, k)
        os.makedirs(dst, exist_ok=True)
        shutil.copy(patch, os.path.join(dst, "patch.diff"))
        shutil.copy(demo, os.path.join(dst, os.path.basename(demo)))
        notes = open(os.path.join(src, k + ".md")).read() if os.path.exists(os.path.join(src, k + ".md")) else ""
        json.dump({"property": pid, "id": "%s-%s" % (pid, k), "touches": touched, "demo_dir": demodir, "demo_tests": demotests,
                   "confirmed": {"demo_unchanged": "pass (%d tests)" % len(p0), "demo_with_change": "fail (%s)" % ", ".join(sorted(x.split("::")[1] for x in f1)),
                                 "existing_tests_with_change": "all %d baseline-stable tests of %s pass" % (len(relevant), pkgs)},
                   "author_notes": notes, "detected_by": None}, open(os.path.join(dst, "meta.json"), "w"), indent=1)
    sys.exit(0 if good else 1)
finally:
    sh("git -C /repo worktree remove --force %s" % wt)
    sh("rm -rf %s" % wt)
