import json, os
HOW='tools/try_seed.sh %s quick (check run against a scratch worktree of /repo HEAD with patch.diff applied)'
R={
'C01-m3':('missed',None,'outside: the shard-level replay call-back and the pooled replay objects (sync.Pool) are not encoded'),
'C01-m4':('missed',None,'outside: shard.writeRows while an asynchronous replay is pending (goroutines, whole shard) is not encoded'),
'C02-m3':('caught','VerifC02MemTable','harness added after the first miss'),
'C02-m4':('caught','VerifC02SortLong',''),
'C03-m3':('caught','VerifC03ReplaceFilesCrash','harness added after the first miss'),
'C03-m4':('missed',None,'outside: the error path of the out-of-order merge (mergeTool.merge) needs real TSSP readers and writers'),
'C06-m3':('caught','VerifC06MemFields','harness added after the first miss'),
'C06-m4':('caught','VerifC06FixFields','harness added after the first miss'),
'C07-m3':('caught','VerifC07RowBatch',''),
'C07-m4':('caught','VerifC07StringColumn',''),
'C08-m3':('caught','VerifC08IteratorChunking','harness added after the first miss'),
'C08-m4':('missed',None,'outside: FillTransform (ports, goroutines) is not encoded'),
'C09-m3':('missed',None,'outside: the statistics shortcut of the file reader (readSumCount over real chunk metadata) is not encoded'),
'C09-m4':('missed',None,'outside: the column writer of the out-of-order merge needs real TSSP writers'),
'C10-m3':('caught','VerifC10FilterCacheKey','harness added after the first miss'),
'C10-m4':('missed',None,'outside: re-opening an index directory with the bloom filter switched on is not encoded'),
'C11-m3':('caught','VerifC11WriteGroup','harness added after the first miss'),
'C11-m4':('caught','VerifC11RangeRoute',''),
'C12-m3':('caught','VerifC12ArithShip','harness added after the first miss'),
'C12-m4':('missed',None,'outside: the plan codec goes through reflection-based protobuf marshalling'),
'C13-m3':('caught','VerifC13DeletedSetPersisted','harness added after the first miss'),
'C13-m4':('missed',None,'outside: the series-id cache of the write path (workingsetcache) is not encoded'),
'C14-m3':('missed',None,'outside: the retention service loop (services/retention) is not encoded'),
'C14-m4':('caught','VerifC14ShardExpired',''),
'C15-m3':('caught','VerifC15SnapshotIsolated','harness strengthened after the first miss (the partition view is now updated in place after the clone)'),
'C15-m4':('caught','VerifC15SnapshotRoundTrip',''),
'C16-m3':('caught','VerifC16DeletedGroup',''),
'C16-m4':('caught','VerifC16ExpandGroups',''),
'C17-m3':('caught','VerifC17Rotate, VerifC17RotateCompact',''),
'C17-m4':('caught','VerifC17SlotTableFull','harness added after the first miss'),
'C18-m3':('missed',None,'outside: the carry-over buffer of the range-vector reducers over three or more record batches is not encoded'),
'C18-m4':('missed',None,'outside: the PromQL transpiler is not encoded'),
'C19-m3':('missed',None,'outside: serveQuery (statement parsing and execution around the authorisation call) is not encoded'),
'C19-m4':('caught','VerifC19ReadPrivileges',''),
'C18-m1':('caught','VerifC18RateExtrapolation','harness added after the first miss (round 1)'),
}
import sys
for a in sys.argv[1:]:
    k,st,en,note=a.split('|'); R[k]=(st,en or None,note)
for k,(st,en,note) in R.items():
    p='/verif/seeded/%s/meta.json'%k
    if not os.path.exists(p): print('missing',k); continue
    d=json.load(open(p))
    d['breaks_property']=d['property']
    d['check_result']={'status':st,'tier':'quick' if st=='caught' else None,'entry':en,'how':HOW%k}
    if note: d['check_result']['note']=note
    d.pop('detected_by',None)
    json.dump(d,open(p,'w'),indent=1)
print('ok')
