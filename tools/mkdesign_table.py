#!/usr/bin/env python3
"""Regenerates the as-built entry table of DESIGN.md (section 0.4) from harness/<id>/harness.json."""
import json, glob, os, re
root = os.path.dirname(os.path.dirname(os.path.abspath(__file__)))
rows = []
for p in sorted(glob.glob(os.path.join(root, "harness", "C*", "harness.json"))):
    d = json.load(open(p))
    cells = []
    for g in d["groups"]:
        for e in g["entries"]:
            b = e["bounds"].split(";")[0].strip()
            cells.append("`%s` - %s" % (e["name"], b[:150]))
    rows.append("| %s | %s |" % (d["property"], "<br>".join(cells)))
table = "| id | entries (first clause of each bound; full bounds in harness.json / evidence) |\n|---|---|\n" + "\n".join(rows) + "\n"
p = os.path.join(root, "DESIGN.md")
s = open(p).read()
a, b = "<!-- entries:begin -->\n", "<!-- entries:end -->\n"
if a in s:
    s = s[:s.index(a) + len(a)] + table + s[s.index(b):]
else:
    m = re.search(r"\| id \| entries \(first clause.*?\n(\|.*\n)+", s)
    s = s[:m.start()] + a + table + b + s[m.end():]
open(p, "w").write(s)
print("table rows:", len(rows))
