#!/bin/bash
# tools/try_seed.sh <seed-id e.g. C07-m1> [tier]: runs the property's check against a scratch worktree of
# /repo's HEAD with the seeded change applied (VERIF_REPO), then removes the worktree.
id=$1; tier=${2:-quick}; prop=${id%%-*}
wt=/tmp/seed/try-$id
cd /verif
git -C /repo worktree remove --force $wt >/dev/null 2>&1
git -C /repo worktree add --detach $wt HEAD >/dev/null 2>&1 || { echo "worktree failed"; exit 2; }
git -C $wt apply /verif/seeded/$id/patch.diff || { echo "patch does not apply"; git -C /repo worktree remove --force $wt; exit 2; }
s=$(date +%s)
mkdir -p /tmp/seed/out-$id; VERIF_REPO=$wt VERIF_OUT_DIR=/tmp/seed/out-$id ./check $prop $tier > /tmp/try-$id.log 2>&1
rc=$?
git -C /repo worktree remove --force $wt >/dev/null 2>&1
echo "$id rc=$rc $(( $(date +%s) - s ))s $(grep '^check ' /tmp/try-$id.log | tail -1)"
grep '^VIOLATION\|^INCONCLUSIVE' /tmp/try-$id.log | cut -c1-260
exit 0
