#!/bin/bash
# dev helper: tools/dev.sh <pid> <pkg> <files,comma> <entries,comma> [extra gosmt flags]
# runs the engine only (no native validation) and prints a summary
pid=$1; pkg=$2; files=$3; entries=$4; shift 4
H=""
for f in ${files//,/ }; do H="$H,/verif/harness/$pid/$f"; done
out=/tmp/dev-$pid-$$.json
/verif/bin/gosmt -dir /repo -pkg "$pkg" -rt /verif/rt/verifrt -harness "${H#,}" -entry "$entries" -out $out -timeout-ms 3000 "$@" 
python3 /verif/bin/show.py $out
rm -f $out
