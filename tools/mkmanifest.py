#!/usr/bin/env python3
"""Regenerates MANIFEST.json from harness/<id>/harness.json (claimed) and tools/not_applicable.json."""
import json, os
ROOT = os.path.dirname(os.path.dirname(os.path.abspath(__file__)))
props = [json.loads(l)["id"] for l in open(os.path.join(ROOT, "properties.jsonl"))]
na = json.load(open(os.path.join(ROOT, "tools", "not_applicable.json")))
checks, nas = [], []
for pid in props:
    hp = os.path.join(ROOT, "harness", pid, "harness.json")
    if os.path.exists(hp) and json.load(open(hp)).get("claimed", True):
        c = json.load(open(hp))
        checks.append({
            "property_id": pid,
            "quick_cmd": "./check %s quick" % pid,
            "thorough_cmd": "./check %s thorough" % pid,
            "evidence_file": "/verif/evidence/%s.json" % pid,
            "replay_cmd_template": "./check %s --replay {path}" % pid,
            "engine": "gosmt",
            "level_claimed": {"category": "model_checking", "text": c["level_text"], "design_ref": c.get("design_ref", "DESIGN.md §6 " + pid)},
            "level_note": c["level_note"],
            "technique": c.get("technique", "bounded symbolic execution of the Go SSA of the real functions; every path condition and assertion discharged by SMT (z3/cvc5); counterexamples replayed natively"),
        })
    else:
        nas.append({"property_id": pid, "reason": na.get(pid, "no solver-based check has been built for this property")})
m = {
    "version": 1,
    "setup_cmd": "cd /verif/engine && PATH=/root/go/pkg/mod/golang.org/toolchain@v0.0.1-go1.25.0.linux-amd64/bin:$PATH GOFLAGS=-mod=mod GOPROXY=off GOTOOLCHAIN=local go build -o /verif/bin/gosmt ./cmd/gosmt && /verif/bin/gosmt -h 2>&1 | head -1",
    "hooks": {"guard": "verif", "enable": "harness files carry //go:build verif and are injected with go/packages overlays and go test -overlay; /repo itself is not modified",
              "baseline_off_cmd": json.load(open("/root/.vp/BASELINE.json"))["cmd"], "source_commits": [], "add_only": True},
    "engines": [{"name": "gosmt", "path": "/verif/engine", "serves_properties": [c["property_id"] for c in checks],
                 "kind_free_text": "own symbolic executor for Go SSA (go/ssa) with SMT back ends z3 4.8.12, z3 5.1.0, cvc5 1.0.3"}],
    "checks": checks,
    "not_applicable": nas,
    "notes": "All checks are bounded symbolic model checking of the real code; bounds and what lies outside them are in each harness/<id>/harness.json (copied into the evidence on every run) and in DESIGN.md §0.4 / §6; fixed defects and known findings are in known_findings.json, seeded changes and which check catches them in DESIGN.md §11.",
}
json.dump(m, open(os.path.join(ROOT, "MANIFEST.json"), "w"), indent=1)
print("claimed:", [c["property_id"] for c in checks]); print("not applicable:", [n["property_id"] for n in nas])
