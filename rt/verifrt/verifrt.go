// Package verifrt is the harness runtime. Under the gosmt symbolic executor every function here
// is intercepted by name; natively (go test -overlay) the implementations below serve recorded
// inputs from a replay file, so that a solver model can be replayed against the real code.
package verifrt

import (
	"encoding/json"
	"fmt"
	"math"
	"os"
	"reflect"
	"sort"
	"strings"
	"unsafe"
)

type input struct {
	Name  string `json:"name"`
	Width uint8  `json:"width"`
	Value uint64 `json:"value"`
}

type replayFile struct {
	Inputs []input `json:"inputs"`
}

var (
	inputs   []input
	pos      int
	Failures []string
	Observed []string
	Reached  = map[string]bool{}
	Skipped  bool
	loaded   bool
)

// Load reads a replay file (JSON with an "inputs" array).
func Load(path string) error {
	b, err := os.ReadFile(path)
	if err != nil {
		return err
	}
	var rf replayFile
	if err := json.Unmarshal(b, &rf); err != nil {
		return err
	}
	inputs = rf.Inputs
	Reset()
	loaded = true
	return nil
}

// SetInputs installs inputs directly (co-simulation).
func SetInputs(vals []uint64) {
	inputs = inputs[:0]
	for _, v := range vals {
		inputs = append(inputs, input{Value: v})
	}
	Reset()
	loaded = true
}

func Reset() {
	pos = 0
	Failures = nil
	Observed = nil
	Reached = map[string]bool{}
	Skipped = false
}

type skip struct{}

// Run executes a harness natively, absorbing the control flow of Assume(false).
func Run(f func()) (panicked interface{}) {
	defer func() {
		if r := recover(); r != nil {
			if _, ok := r.(skip); ok {
				Skipped = true
				return
			}
			panicked = r
		}
	}()
	f()
	return nil
}

func next(name string, w uint8) uint64 {
	var v uint64
	if pos < len(inputs) {
		in := inputs[pos]
		if in.Name != "" && !strings.HasPrefix(in.Name, name+"#") {
			panic(fmt.Sprintf("verifrt: replay divergence: input %d is %q, harness asks for %q", pos, in.Name, name))
		}
		v = in.Value
	}
	pos++
	if w == 0 {
		return v & 1
	}
	if w < 64 {
		v &= (uint64(1) << w) - 1
	}
	return v
}

func Bool(name string) bool       { return next(name, 0) != 0 }
func Byte(name string) byte       { return byte(next(name, 8)) }
func Uint8(name string) uint8     { return uint8(next(name, 8)) }
func Int8(name string) int8       { return int8(next(name, 8)) }
func Uint16(name string) uint16   { return uint16(next(name, 16)) }
func Int16(name string) int16     { return int16(next(name, 16)) }
func Uint32(name string) uint32   { return uint32(next(name, 32)) }
func Int32(name string) int32     { return int32(next(name, 32)) }
func Uint64(name string) uint64   { return next(name, 64) }
func Int64(name string) int64     { return int64(next(name, 64)) }
func Int(name string) int         { return int(next(name, 64)) }
func Float64(name string) float64 { return math.Float64frombits(next(name, 64)) }

func Bytes(name string, n int) []byte {
	b := make([]byte, n)
	for i := range b {
		b[i] = byte(next(name, 8))
	}
	return b
}

func String(name string, n int) string { return string(Bytes(name, n)) }

func Choose(name string, n int) int {
	v := int(next(name, 64))
	if v < 0 || v >= n {
		panic(skip{})
	}
	return v
}

func Assume(c bool) {
	if !c {
		panic(skip{})
	}
}

func Assert(c bool, msg string) {
	if !c {
		Failures = append(Failures, msg)
		panic(skip{})
	}
}

func Reach(label string) { Reached[label] = true }

func Observe(label string, v interface{}) {
	Observed = append(Observed, label+"="+render(reflect.ValueOf(v), 0))
}

func MapOrder(on bool) {}

// Tier is 0 for the quick tier and 1 for the thorough tier (VERIF_TIER natively).
func Tier() int {
	if os.Getenv("VERIF_TIER") == "thorough" {
		return 1
	}
	return 0
}

// Symbolic reports whether the harness runs under the symbolic executor.
func Symbolic() bool { return false }

// UF64 stands for an uninterpreted function under the executor; natively it is FNV-1a.
func UF64(name string, b []byte) uint64 {
	h := uint64(14695981039346656037)
	for _, c := range b {
		h ^= uint64(c)
		h *= 1099511628211
	}
	return h
}

func render(v reflect.Value, depth int) string {
	if depth > 6 {
		return "..."
	}
	if !v.IsValid() {
		return "nil"
	}
	switch v.Kind() {
	case reflect.Bool:
		return fmt.Sprint(v.Bool())
	case reflect.Int, reflect.Int8, reflect.Int16, reflect.Int32, reflect.Int64:
		if depth == 0 {
			return fmt.Sprintf("%d", v.Int())
		}
		// nested integers are rendered as unsigned bit patterns of their width
		bits := v.Type().Bits()
		u := uint64(v.Int())
		if bits < 64 {
			u &= (uint64(1) << uint(bits)) - 1
		}
		return fmt.Sprintf("%d", u)
	case reflect.Uint, reflect.Uint8, reflect.Uint16, reflect.Uint32, reflect.Uint64, reflect.Uintptr:
		return fmt.Sprintf("%d", v.Uint())
	case reflect.Float64:
		return fmt.Sprintf("f%016x", math.Float64bits(v.Float()))
	case reflect.Float32:
		return fmt.Sprintf("f%08x", math.Float32bits(float32(v.Float())))
	case reflect.String:
		return fmt.Sprintf("%q", v.String())
	case reflect.Slice, reflect.Array:
		ek := v.Type().Elem().Kind()
		if isNumKind(ek) {
			var sb strings.Builder
			sb.WriteString("[")
			for i := 0; i < v.Len(); i++ {
				e := v.Index(i)
				var u uint64
				n := int(e.Type().Size())
				switch {
				case ek == reflect.Bool:
					if e.Bool() {
						u = 1
					}
				case ek == reflect.Float64:
					u = math.Float64bits(e.Float())
				case ek == reflect.Float32:
					u = uint64(math.Float32bits(float32(e.Float())))
				case ek >= reflect.Int && ek <= reflect.Int64:
					u = uint64(e.Int())
				default:
					u = e.Uint()
				}
				for k := 0; k < n; k++ {
					fmt.Fprintf(&sb, "%02x", byte(u>>(8*uint(k))))
				}
			}
			sb.WriteString("]")
			return sb.String()
		}
		var parts []string
		for i := 0; i < v.Len(); i++ {
			parts = append(parts, render(v.Index(i), depth+1))
		}
		return "[" + strings.Join(parts, " ") + "]"
	case reflect.Struct:
		var parts []string
		for i := 0; i < v.NumField(); i++ {
			parts = append(parts, render(v.Field(i), depth+1))
		}
		return "{" + strings.Join(parts, " ") + "}"
	case reflect.Ptr:
		if v.IsNil() {
			return "nil"
		}
		return "&" + render(v.Elem(), depth+1)
	case reflect.Interface:
		if v.IsNil() {
			return "nil"
		}
		return render(v.Elem(), depth+1)
	}
	return "<" + v.Kind().String() + ">"
}

func isNumKind(k reflect.Kind) bool {
	switch k {
	case reflect.Bool, reflect.Int, reflect.Int8, reflect.Int16, reflect.Int32, reflect.Int64,
		reflect.Uint, reflect.Uint8, reflect.Uint16, reflect.Uint32, reflect.Uint64, reflect.Uintptr,
		reflect.Float32, reflect.Float64:
		return true
	}
	return false
}

// ---------- DeepEqual: structural, floats by bit pattern, nil slice == empty slice, sync.* ignored ----------

func DeepEqual(a, b interface{}) bool {
	va, vb := reflect.ValueOf(a), reflect.ValueOf(b)
	if !va.IsValid() || !vb.IsValid() {
		return va.IsValid() == vb.IsValid()
	}
	if va.Type() != vb.Type() {
		return false
	}
	return deepEq(va, vb, map[[2]unsafe.Pointer]bool{}, 0)
}

func isSync(t reflect.Type) bool { return t.PkgPath() == "sync" }

func deepEq(a, b reflect.Value, seen map[[2]unsafe.Pointer]bool, depth int) bool {
	switch a.Kind() {
	case reflect.Float32, reflect.Float64:
		return math.Float64bits(a.Float()) == math.Float64bits(b.Float())
	case reflect.Bool:
		return a.Bool() == b.Bool()
	case reflect.Int, reflect.Int8, reflect.Int16, reflect.Int32, reflect.Int64:
		return a.Int() == b.Int()
	case reflect.Uint, reflect.Uint8, reflect.Uint16, reflect.Uint32, reflect.Uint64, reflect.Uintptr:
		return a.Uint() == b.Uint()
	case reflect.String:
		return a.String() == b.String()
	case reflect.Complex64, reflect.Complex128:
		return a.Complex() == b.Complex()
	case reflect.UnsafePointer, reflect.Chan:
		return true
	case reflect.Func:
		return a.IsNil() == b.IsNil()
	case reflect.Ptr:
		if a.IsNil() || b.IsNil() {
			return a.IsNil() == b.IsNil()
		}
		if a.Pointer() == b.Pointer() {
			return true
		}
		k := [2]unsafe.Pointer{unsafe.Pointer(a.Pointer()), unsafe.Pointer(b.Pointer())}
		if seen[k] {
			return true
		}
		seen[k] = true
		return deepEq(a.Elem(), b.Elem(), seen, depth+1)
	case reflect.Slice:
		if a.Len() != b.Len() {
			return false
		}
		for i := 0; i < a.Len(); i++ {
			if !deepEq(a.Index(i), b.Index(i), seen, depth+1) {
				return false
			}
		}
		return true
	case reflect.Array:
		for i := 0; i < a.Len(); i++ {
			if !deepEq(a.Index(i), b.Index(i), seen, depth+1) {
				return false
			}
		}
		return true
	case reflect.Struct:
		if isSync(a.Type()) {
			return true
		}
		for i := 0; i < a.NumField(); i++ {
			if isSync(a.Type().Field(i).Type) {
				continue
			}
			if !deepEq(a.Field(i), b.Field(i), seen, depth+1) {
				return false
			}
		}
		return true
	case reflect.Interface:
		if a.IsNil() || b.IsNil() {
			return a.IsNil() == b.IsNil()
		}
		if a.Elem().Type() != b.Elem().Type() {
			return false
		}
		return deepEq(a.Elem(), b.Elem(), seen, depth+1)
	case reflect.Map:
		if a.Len() != b.Len() {
			return false
		}
		for _, k := range a.MapKeys() {
			bv := b.MapIndex(k)
			if !bv.IsValid() || !deepEq(a.MapIndex(k), bv, seen, depth+1) {
				return false
			}
		}
		return true
	}
	return false
}

// ---------- Havoc: fill numeric/bool leaves reachable from ptr with inputs named by access path ----------
// Strings, funcs, channels are left alone; maps with string keys and pointer values are descended in
// sorted key order; *time.Location is not followed. Mirrors the executor's havoc exactly.

func Havoc(ptr interface{}, name string) {
	v := reflect.ValueOf(ptr)
	if v.Kind() != reflect.Ptr || v.IsNil() {
		return
	}
	havocPtr(v, name, map[unsafe.Pointer]bool{})
}

func havocPtr(p reflect.Value, name string, seen map[unsafe.Pointer]bool) {
	if p.IsNil() {
		return
	}
	if p.Type().Elem().PkgPath() == "time" {
		return
	}
	k := unsafe.Pointer(p.Pointer())
	if seen[k] {
		return
	}
	seen[k] = true
	havocVal(p.Elem(), name, seen)
}

func settable(v reflect.Value) reflect.Value {
	if v.CanSet() {
		return v
	}
	if v.CanAddr() {
		return reflect.NewAt(v.Type(), unsafe.Pointer(v.UnsafeAddr())).Elem()
	}
	return v
}

func havocVal(v reflect.Value, name string, seen map[unsafe.Pointer]bool) {
	v = settable(v)
	switch v.Kind() {
	case reflect.Bool:
		v.SetBool(next(name, 0) != 0)
	case reflect.Int, reflect.Int8, reflect.Int16, reflect.Int32, reflect.Int64:
		w := uint8(v.Type().Bits())
		u := next(name, w)
		sh := 64 - uint(w)
		v.SetInt(int64(u<<sh) >> sh)
	case reflect.Uint, reflect.Uint8, reflect.Uint16, reflect.Uint32, reflect.Uint64, reflect.Uintptr:
		v.SetUint(next(name, uint8(v.Type().Bits())))
	case reflect.Float64:
		v.SetFloat(math.Float64frombits(next(name, 64)))
	case reflect.Float32:
		v.SetFloat(float64(math.Float32frombits(uint32(next(name, 32)))))
	case reflect.Struct:
		if isSync(v.Type()) {
			return
		}
		for i := 0; i < v.NumField(); i++ {
			havocVal(v.Field(i), name+"."+v.Type().Field(i).Name, seen)
		}
	case reflect.Array, reflect.Slice:
		for i := 0; i < v.Len(); i++ {
			havocVal(v.Index(i), fmt.Sprintf("%s[%d]", name, i), seen)
		}
	case reflect.Ptr:
		havocPtr(v, name, seen)
	case reflect.Interface:
		if !v.IsNil() && v.Elem().Kind() == reflect.Ptr {
			havocPtr(v.Elem(), name, seen)
		}
	case reflect.Map:
		if v.IsNil() || v.Type().Key().Kind() != reflect.String || v.Type().Elem().Kind() != reflect.Ptr {
			return
		}
		var keys []string
		for _, k := range v.MapKeys() {
			keys = append(keys, k.String())
		}
		sort.Strings(keys)
		for _, k := range keys {
			havocPtr(v.MapIndex(reflect.ValueOf(k).Convert(v.Type().Key())), fmt.Sprintf("%s[%s]", name, k), seen)
		}
	}
}
